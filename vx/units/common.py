"""pieces shared by several units (each unit still regenerates and re-verifies them from /repo)"""
from vxlib import Unit, Clause

MM = 'tonic/src/metadata/map.rs'

RESERVED_SPEC = r'''
// The reserved names, taken from the property statement (C08): te, user-agent, content-type, grpc-status, grpc-message,
// grpc-message-type
pub open spec fn is_reserved(k: Seq<char>) -> bool {
    k == "te"@ || k == "user-agent"@ || k == "content-type"@ || k == "grpc-message"@ || k == "grpc-message-type"@ || k == "grpc-status"@
}
// r is m without the reserved names; every other name keeps its values, in order
pub open spec fn sanitized_of(r: HMap, m: HMap) -> bool {
    &&& forall|k: Seq<char>| #[trigger] r.contains_key(k) <==> (m.contains_key(k) && !is_reserved(k))
    &&& forall|k: Seq<char>| #[trigger] r.contains_key(k) ==> r[k] == m[k]
}
pub proof fn lemma_names_distinct()
    ensures
        !is_reserved("grpc-status-details-bin"@), !is_reserved("grpc-encoding"@), !is_reserved("grpc-accept-encoding"@),
        !is_reserved("grpc-timeout"@),
        "grpc-status"@ != "grpc-message"@, "grpc-status"@ != "grpc-status-details-bin"@, "grpc-message"@ != "grpc-status-details-bin"@,
        "content-type"@ != "grpc-status"@, "content-type"@ != "grpc-message"@, "content-type"@ != "grpc-status-details-bin"@,
        "te"@ != "content-type"@, "grpc-encoding"@ != "grpc-accept-encoding"@, "grpc-encoding"@ != "content-type"@,
        "grpc-accept-encoding"@ != "content-type"@, "te"@ != "grpc-encoding"@, "te"@ != "grpc-accept-encoding"@,
{
    reveal_strlit("te"); reveal_strlit("user-agent"); reveal_strlit("content-type"); reveal_strlit("grpc-message");
    reveal_strlit("grpc-message-type"); reveal_strlit("grpc-status"); reveal_strlit("grpc-status-details-bin");
    reveal_strlit("grpc-encoding"); reveal_strlit("grpc-accept-encoding"); reveal_strlit("grpc-timeout");
    assert("te"@.len() == 2); assert("user-agent"@.len() == 10); assert("content-type"@.len() == 12); assert("grpc-message"@.len() == 12);
    assert("grpc-message-type"@.len() == 17); assert("grpc-status"@.len() == 11); assert("grpc-status-details-bin"@.len() == 23);
    assert("grpc-encoding"@.len() == 13); assert("grpc-accept-encoding"@.len() == 20); assert("grpc-timeout"@.len() == 12);
    assert("content-type"@[0] == 'c'); assert("grpc-message"@[0] == 'g'); assert("grpc-timeout"@[5] == 't'); assert("grpc-message"@[5] == 'm');
    assert("content-type"@[1] == 'o'); assert("grpc-timeout"@[1] == 'r');
}
'''

DERIVES = r'''
impl MetadataMap {
    // A-derive-01: #[derive(Clone)] on MetadataMap is field-wise
    pub fn clone(&self) -> (r: Self) ensures r.headers@ == self.headers@ { MetadataMap { headers: self.headers.clone() } }
}
'''


FOLD_CASE = {'http.rs': [(
    'impl AsHeaderName for &str { open spec fn hname(&self) -> Seq<char> { self@ } }',
    '// A-http-26: a name given as text is normalised to lower case by every HeaderMap lookup (HdrName::from_bytes), as by\n'
    '// HeaderName::from_bytes; elsewhere this prelude states lookups for the lower-case literals tonic itself uses\n'
    'impl AsHeaderName for &str { open spec fn hname(&self) -> Seq<char> { lower(self@) } }')]}

LOWER = r'''
// ASCII lower-casing of a header name (what http does to names given as text)
pub open spec fn lower_char(c: char) -> char { if 'A' <= c && c <= 'Z' { (((c as u8) + 32) as u8) as char } else { c } }
pub open spec fn lower(s: Seq<char>) -> Seq<char> { s.map_values(|c: char| lower_char(c)) }
pub mod case_facts {
    use crate::*;
    pub broadcast proof fn lemma_lower_idem(s: Seq<char>) ensures #[trigger] lower(lower(s)) == lower(s) { assert(lower(lower(s)) =~= lower(s)); }
    // A-http-27: a HeaderName is lower-case (http normalises on construction)
    pub broadcast axiom fn axiom_header_name_lower(n: HeaderName) ensures #[trigger] lower(n@) == n@;
}

// the reserved names are lower-case already
pub proof fn lemma_reserved_lower()
    ensures forall|k: Seq<char>| is_reserved(k) ==> #[trigger] lower(k) == k
{
    reveal_strlit("te"); reveal_strlit("user-agent"); reveal_strlit("content-type"); reveal_strlit("grpc-message");
    reveal_strlit("grpc-message-type"); reveal_strlit("grpc-status");
    assert(lower("te"@) =~= "te"@); assert(lower("user-agent"@) =~= "user-agent"@); assert(lower("content-type"@) =~= "content-type"@);
    assert(lower("grpc-message"@) =~= "grpc-message"@); assert(lower("grpc-message-type"@) =~= "grpc-message-type"@); assert(lower("grpc-status"@) =~= "grpc-status"@);
}
'''


def http_base(u: Unit, fold_case=False):
    """fold_case: the unit hands user-supplied text to HeaderMap lookups, so the case-insensitivity of http names is modelled"""
    u.prelude('base.rs', 'bytes.rs', 'http.rs', 'httpmsg.rs', 'encodings.rs', 'stdshim.rs', subst=FOLD_CASE if fold_case else None)
    if fold_case:
        u.raw(LOWER)
        u.every_body_start = '        broadcast use {case_facts::axiom_header_name_lower, case_facts::lemma_lower_idem};'


def metadata_core(u: Unit, props_sanitize=('C08', 'C03', 'C04', 'C12', 'C02'), fold_case=False):
    """the real MetadataMap struct, its reserved-name table and the straight-line constructors"""
    u.raw(RESERVED_SPEC)
    u.item(MM, 'struct', 'MetadataMap')
    u.raw(DERIVES)
    u._emit('impl MetadataMap {')
    u._open_header = 'impl MetadataMap {'
    idx = ' || '.join('Self::GRPC_RESERVED_HEADERS@[%d]@ == k' % i for i in range(6))
    u.exec_const(MM, 'GRPC_RESERVED_HEADERS', props=list(props_sanitize), ensures=[
        Clause('T1_six_names', 'Self::GRPC_RESERVED_HEADERS@.len() == 6'),
        Clause('T2_only_reserved_names', 'forall|j: int| 0 <= j < 6 ==> is_reserved(#[trigger] Self::GRPC_RESERVED_HEADERS@[j]@)'),
        Clause('T3_every_reserved_name_listed', 'forall|k: Seq<char>| is_reserved(k) ==> (%s)' % idx),
    ])
    u.fn(MM, 'new', within='impl MetadataMap', props=list(props_sanitize),
         ensures=[('empty', 'r.headers@ == Map::<Seq<char>, Seq<Seq<u8>>>::empty()')])
    u.fn(MM, 'with_capacity', within='impl MetadataMap', props=list(props_sanitize),
         ensures=[('empty', 'r.headers@ == Map::<Seq<char>, Seq<Seq<u8>>>::empty()')])
    u.fn(MM, 'from_headers', within='impl MetadataMap', props=list(props_sanitize),
         ensures=[('same', 'r.headers@ == headers@')])
    u.fn(MM, 'into_headers', within='impl MetadataMap', props=list(props_sanitize),
         ensures=[('same', 'r@ == self.headers@')])
    u.fn(MM, 'len', within='impl MetadataMap', props=list(props_sanitize), ensures=[('bounded', 'r <= 32768')])
    seq = lambda i: 'it.seq()[%d]@ == k' % i
    u.fn(MM, 'into_sanitized_headers', within='impl MetadataMap', props=list(props_sanitize),
         body_start='        let ghost h0 = self.headers@;' + (' proof { lemma_reserved_lower(); }' if fold_case else ''),
         loops={0: dict(iter='it', invariant=[
             'it.seq().len() == 6',
             'forall|j: int| 0 <= j < 6 ==> is_reserved(#[trigger] it.seq()[j]@)',
             'forall|k: Seq<char>| is_reserved(k) ==> (%s)' % ' || '.join(seq(i) for i in range(6)),
             'forall|k: Seq<char>| #[trigger] this.headers@.contains_key(k) <==> (h0.contains_key(k) && !(%s))'
             % ' || '.join('(it.index@ > %d && %s)' % (i, seq(i)) for i in range(6)),
             'forall|k: Seq<char>| #[trigger] this.headers@.contains_key(k) ==> this.headers@[k] == h0[k]',
         ])},
         ensures=[Clause('S1_reserved_names_stripped_everything_else_kept', 'sanitized_of(r@, self.headers@)')])
    u.close('}')


STATUS_SPEC = r'''
// ---- independent tables (gRPC statuscodes.md / http-grpc-status-mapping.md / PROTOCOL-HTTP2.md), no tonic code ----
pub open spec fn code_num(c: Code) -> int {
    match c {
        Code::Ok => 0, Code::Cancelled => 1, Code::Unknown => 2, Code::InvalidArgument => 3, Code::DeadlineExceeded => 4,
        Code::NotFound => 5, Code::AlreadyExists => 6, Code::PermissionDenied => 7, Code::ResourceExhausted => 8,
        Code::FailedPrecondition => 9, Code::Aborted => 10, Code::OutOfRange => 11, Code::Unimplemented => 12,
        Code::Internal => 13, Code::Unavailable => 14, Code::DataLoss => 15, Code::Unauthenticated => 16,
    }
}
pub open spec fn code_of_num(i: int) -> Code {
    if i == 0 { Code::Ok } else if i == 1 { Code::Cancelled } else if i == 3 { Code::InvalidArgument } else if i == 4 { Code::DeadlineExceeded }
    else if i == 5 { Code::NotFound } else if i == 6 { Code::AlreadyExists } else if i == 7 { Code::PermissionDenied }
    else if i == 8 { Code::ResourceExhausted } else if i == 9 { Code::FailedPrecondition } else if i == 10 { Code::Aborted }
    else if i == 11 { Code::OutOfRange } else if i == 12 { Code::Unimplemented } else if i == 13 { Code::Internal }
    else if i == 14 { Code::Unavailable } else if i == 15 { Code::DataLoss } else if i == 16 { Code::Unauthenticated } else { Code::Unknown }
}
// decimal text of 0..=99 without leading zero
pub open spec fn dec_text(n: int) -> Seq<u8> {
    if n < 10 { seq![(48 + n) as u8] } else { seq![(48 + n / 10) as u8, (48 + n % 10) as u8] }
}
// the code a grpc-status value denotes: the decimal text of 0..=16, anything else is UNKNOWN
pub open spec fn code_of_bytes(b: Seq<u8>) -> Code {
    if b.len() == 1 && 48 <= b[0] <= 57 { code_of_num(b[0] - 48) }
    else if b.len() == 2 && b[0] == 49 && 48 <= b[1] <= 54 { code_of_num(10 + (b[1] - 48)) }
    else { Code::Unknown }
}
pub proof fn lemma_code_roundtrip(c: Code)
    ensures code_of_bytes(dec_text(code_num(c))) == c, code_of_num(code_num(c)) == c
{}
// http-grpc-status-mapping.md, as quoted in the property statement
pub open spec fn code_of_http(sc: http::StatusCode) -> Code {
    if sc.0 == 400 { Code::Internal } else if sc.0 == 401 { Code::Unauthenticated } else if sc.0 == 403 { Code::PermissionDenied }
    else if sc.0 == 404 { Code::Unimplemented } else if sc.0 == 429 || sc.0 == 502 || sc.0 == 503 || sc.0 == 504 { Code::Unavailable }
    else { Code::Unknown }
}
// h2 error code (RFC 7540 numbering) to gRPC code, PROTOCOL-HTTP2.md "Errors"; FRAME_SIZE_ERROR(6), STREAM_CLOSED(5) and
// HTTP_1_1_REQUIRED(13) are not named by the property statement and are left unconstrained here
pub open spec fn h2_constrained(r: u32) -> bool { r != 5 && r != 6 && r <= 12 }
pub open spec fn code_of_h2(r: u32) -> Code {
    if r == 8 { Code::Cancelled } else if r == 7 { Code::Unavailable } else if r == 11 { Code::ResourceExhausted }
    else if r == 12 { Code::PermissionDenied } else { Code::Internal }
}

// the three header names a status is spelled with
pub open spec fn status_names(k: Seq<char>) -> bool { k == "grpc-status"@ || k == "grpc-message"@ || k == "grpc-status-details-bin"@ }
'''

STATUS_REL = r'''
// WRITING: what add_header must leave in the map (from the property: code as decimal, message percent-encoded, details
// base64 without padding, user metadata minus reserved names, everything else untouched)
pub open spec fn written_status(s: Status, post: HMap) -> bool {
    &&& post.contains_key("grpc-status"@) && post["grpc-status"@] == seq![dec_text(code_num(s.code))]
    &&& s.message@.len() > 0 ==> post.contains_key("grpc-message"@) && post["grpc-message"@] == seq![pct_enc(utf8(s.message@))]
    &&& s.details@.len() > 0 ==> post.contains_key("grpc-status-details-bin"@) && post["grpc-status-details-bin"@] == seq![b64_enc(false, s.details@)]
}
pub open spec fn written_rest(s: Status, pre: HMap, post: HMap) -> bool {
    forall|k: Seq<char>| !(k == "grpc-status"@) && !(k == "grpc-message"@ && s.message@.len() > 0) && !(k == "grpc-status-details-bin"@ && s.details@.len() > 0) ==>
            (#[trigger] post.contains_key(k) <==> ((s.metadata.headers@.contains_key(k) && !is_reserved(k)) || pre.contains_key(k)))
            && (post.contains_key(k) ==> post[k] == (if s.metadata.headers@.contains_key(k) && !is_reserved(k) { s.metadata.headers@[k] } else { pre[k] }))
}
pub open spec fn written(s: Status, pre: HMap, post: HMap) -> bool { written_status(s, post) && written_rest(s, pre, post) }
// READING: total; what from_header_map must answer for ANY header map
pub open spec fn msg_ok(h: HMap) -> bool { !h.contains_key("grpc-message"@) || utf8_valid(pct_dec(h["grpc-message"@][0])) }
pub open spec fn det_ok(h: HMap) -> bool { !h.contains_key("grpc-status-details-bin"@) || b64_dec(h["grpc-status-details-bin"@][0]) is Some }
// what reading a status from headers yields, in two parts (so that a break of the status fields is not reported for C08, nor a
// break of the metadata hand-over for the status fields): the status proper ..
pub open spec fn read_status(h: HMap, r: Option<Status>) -> bool {
    &&& r is None <==> !h.contains_key("grpc-status"@)
    &&& r matches Some(st) ==> {
        &&& msg_ok(h) && det_ok(h) ==> {
            &&& st.code == code_of_bytes(h["grpc-status"@][0])
            &&& st.message@ == (if h.contains_key("grpc-message"@) { utf8_str(pct_dec(h["grpc-message"@][0])) } else { Seq::<char>::empty() })
            &&& st.details@ == (if h.contains_key("grpc-status-details-bin"@) { b64_dec(h["grpc-status-details-bin"@][0])->Some_0 } else { Seq::<u8>::empty() })
        }
        &&& !(msg_ok(h) && det_ok(h)) ==> st.code == Code::Unknown
    }
}
// .. and every other header, which becomes the metadata of the status - whatever the status fields looked like
pub open spec fn read_rest(h: HMap, r: Option<Status>) -> bool {
    r matches Some(st) ==> st.metadata.headers@ =~= h.remove("grpc-status"@).remove("grpc-message"@).remove("grpc-status-details-bin"@)
}
pub open spec fn read(h: HMap, r: Option<Status>) -> bool { read_status(h, r) && read_rest(h, r) }
// ROUND TRIP (C04): a status written into an empty map and read back is the same status; its metadata comes back minus
// the reserved names. (Metadata that itself uses one of the three status header names is outside this lemma.)
pub proof fn lemma_status_roundtrip(s: Status, h: HMap, r: Option<Status>)
    requires
        written(s, Map::<Seq<char>, Seq<Seq<u8>>>::empty(), h), read(h, r),
        forall|k: Seq<char>| status_names(k) ==> !s.metadata.headers@.contains_key(k),
    ensures
        r is Some, r->Some_0.code == s.code, r->Some_0.message@ == s.message@, r->Some_0.details@ == s.details@,
        sanitized_of(r->Some_0.metadata.headers@, s.metadata.headers@),
{
    broadcast use axiom_pct_roundtrip, axiom_b64_roundtrip;
    lemma_names_distinct();
    lemma_utf8_roundtrip(s.message@);
    lemma_code_roundtrip(s.code);
    let st = r->Some_0;
    assert(status_names("grpc-status-details-bin"@) && status_names("grpc-message"@) && status_names("grpc-status"@));
    assert(!h.contains_key("grpc-message"@) <==> s.message@.len() == 0);
    assert(!h.contains_key("grpc-status-details-bin"@) <==> s.details@.len() == 0);
    assert(s.message@.len() == 0 ==> s.message@ =~= Seq::<char>::empty());
    assert(s.details@.len() == 0 ==> s.details@ =~= Seq::<u8>::empty());
    let rm = st.metadata.headers@;
    let sm = s.metadata.headers@;
    assert forall|k: Seq<char>| #[trigger] rm.contains_key(k) <==> (sm.contains_key(k) && !is_reserved(k)) by {
        if status_names(k) { assert(!sm.contains_key(k)); assert(!rm.contains_key(k)); }
        else { assert(rm.contains_key(k) <==> h.contains_key(k)); }
    }
    assert forall|k: Seq<char>| #[trigger] rm.contains_key(k) implies rm[k] == sm[k] by {
        assert(!status_names(k));
        assert(h.contains_key(k));
    }
}
'''

STATUS_SHIMS = r'''
// A-h2-01: h2::Reason is a u32 newtype with the RFC 7540 constants; h2::Error::reason() is the reset reason if any
#[derive(PartialEq, Eq, Clone, Copy, Debug, Structural)]
pub struct Reason(pub u32);
impl Reason {
    pub const NO_ERROR: Reason = Reason(0);
    pub const PROTOCOL_ERROR: Reason = Reason(1);
    pub const INTERNAL_ERROR: Reason = Reason(2);
    pub const FLOW_CONTROL_ERROR: Reason = Reason(3);
    pub const SETTINGS_TIMEOUT: Reason = Reason(4);
    pub const STREAM_CLOSED: Reason = Reason(5);
    pub const FRAME_SIZE_ERROR: Reason = Reason(6);
    pub const REFUSED_STREAM: Reason = Reason(7);
    pub const CANCEL: Reason = Reason(8);
    pub const COMPRESSION_ERROR: Reason = Reason(9);
    pub const CONNECT_ERROR: Reason = Reason(10);
    pub const ENHANCE_YOUR_CALM: Reason = Reason(11);
    pub const INADEQUATE_SECURITY: Reason = Reason(12);
    pub const HTTP_1_1_REQUIRED: Reason = Reason(13);
}
pub mod h2 {
    pub use crate::Reason;
    pub struct Error { pub reason: Option<Reason> }
    impl Error {
        pub fn reason(&self) -> (r: Option<Reason>) ensures r == self.reason { self.reason }
    }
    impl vstd::std_specs::convert::FromSpecImpl<Reason> for Error {
        open spec fn obeys_from_spec() -> bool { true }
        open spec fn from_spec(v: Reason) -> Self { Error { reason: Some(v) } }
    }
    impl From<Reason> for Error { fn from(t: Reason) -> (r: Error) { Error { reason: Some(t) } } }
}
pub struct SourceBox { pub id: Ghost<int> }
// A-core-04: B::default() is some fixed value of B (the empty body)
pub trait DefaultBody: Sized { spec fn default_spec() -> Self; fn default() -> (r: Self) ensures r == Self::default_spec(); }
impl HasBytes for Vec<u8> { open spec fn bytes_view(&self) -> Seq<u8> { self@ } }
impl Bytes {
    // A-bytes-22: Bytes::copy_from_slice / From<Vec<u8>> keep the bytes
    #[verifier::external_body]
    pub fn copy_from_slice(s: &[u8]) -> (r: Bytes) ensures r@ == s@ { unimplemented!() }
}
// A-bytes-23: &bytes[..] is the whole content
impl vstd::std_specs::core::IndexSpecImpl<core::ops::RangeFull> for Bytes {
    open spec fn index_req(&self, idx: &core::ops::RangeFull) -> bool { true }
}
impl core::ops::Index<core::ops::RangeFull> for Bytes {
    type Output = [u8];
    #[verifier::external_body]
    fn index(&self, r: core::ops::RangeFull) -> (o: &[u8]) ensures o@ == self@ { unimplemented!() }
}
// A-core-03: impl Into<String> for the message arguments (String, &str) keeps the text
pub trait IntoString { spec fn text(&self) -> Seq<char>; fn into(self) -> (r: String) ensures r@ == self.text(); }
impl IntoString for String { open spec fn text(&self) -> Seq<char> { self@ } fn into(self) -> (r: String) { self } }
impl<'a> IntoString for &'a str { open spec fn text(&self) -> Seq<char> { self@ }
    #[verifier::external_body] fn into(self) -> (r: String) { unimplemented!() } }
// A-pct-03: percent_encode is called with tonic's ENCODING_SET (CONTROLS + space " # % < > ` ? { }); that this set escapes every
// byte HeaderValue rejects (and '%') is checked on the real constant by the complete Kani harness kx::encoding_set
pub const ENCODING_SET: &'static AsciiSet = &AsciiSet { x: 0 };
pub exec const GRPC_CONTENT_TYPE: HeaderValue ensures GRPC_CONTENT_TYPE@ == ascii_bytes("application/grpc"@) { HeaderValue::from_static("application/grpc") }
'''


# Contracts of tonic's own functions that several units rely on.  Unit `status` PROVES them on the real bodies (same
# clause text, see units/status.py); other units link them as assumed contracts A-tonic-status-nn.
EMPTY = 'Map::<Seq<char>, Seq<Seq<u8>>>::empty()'
CT = 'seq![ascii_bytes("application/grpc"@)]'
CONTRACTS = {
    'into_http': [
        ('H1_trailers_only_response_is_200_grpc', 'r.status == http::StatusCode::OK && r.headers@.contains_key("content-type"@) && r.headers@["content-type"@] == %s' % CT, ['C03', 'C04', 'C12']),
        ('H2_carries_exactly_this_status', 'written(self, %s.insert("content-type"@, %s), r.headers@)' % (EMPTY, CT), ['C03', 'C04', 'C12', 'C02']),
        ('H3_no_body', 'r.body == B::default_spec()', ['C03', 'C12']),
    ],
    'to_header_map': [('M1_written_from_empty', 'r matches Ok(h) && written(*self, %s, h@)' % EMPTY, ['C04', 'C03', 'C02'])],
    'from_header_map': [('R1_total_and_exact', 'read_status(header_map@, r)', ['C04', 'C02', 'C20']),
                        ('R2_every_other_header_becomes_the_metadata_of_the_status', 'read_rest(header_map@, r)', ['C04', 'C02', 'C08'])],
    'add_header': [
        ('A1_never_fails_values_always_legal', 'r is Ok', ['C04', 'C03', 'C12']),
        # two clauses, so that a break of the status fields is not reported for C08 (metadata), nor the other way round
        ('A2_written', 'written_status(*self, final(header_map)@)', ['C04', 'C03', 'C02', 'C12', 'C20']),
        ('A3_user_metadata_written_and_every_other_header_untouched', 'written_rest(*self, old(header_map)@, final(header_map)@)', ['C04', 'C03', 'C08', 'C02', 'C12']),
    ],
    'infer_grpc_status': [
        ('I1_status_from_trailers_wins',
         '''trailers is Some && trailers->Some_0@.contains_key("grpc-status"@) ==> match r {
                Ok(()) => msg_ok(trailers->Some_0@) && det_ok(trailers->Some_0@) && code_of_bytes(trailers->Some_0@["grpc-status"@][0]) == Code::Ok,
                Err(Some(st)) => read(trailers->Some_0@, Some(st)) && st.code != Code::Ok,
                Err(None) => false,
            }''', ['C04', 'C02']),
        ('I2_http_status_table',
         '''(trailers is None || !trailers->Some_0@.contains_key("grpc-status"@)) ==> match r {
                Ok(()) => false,
                Err(None) => status_code.0 == 200,
                Err(Some(st)) => status_code.0 != 200 && st.code == code_of_http(status_code),
            }''', ['C04']),
    ],
}
CTOR = 'r.code == Code::%s && r.details@.len() == 0 && r.metadata.headers@ == ' + EMPTY
CTORS = [('ok', 'Ok'), ('cancelled', 'Cancelled'), ('unknown', 'Unknown'), ('invalid_argument', 'InvalidArgument'),
         ('deadline_exceeded', 'DeadlineExceeded'), ('not_found', 'NotFound'), ('already_exists', 'AlreadyExists'),
         ('permission_denied', 'PermissionDenied'), ('resource_exhausted', 'ResourceExhausted'),
         ('failed_precondition', 'FailedPrecondition'), ('aborted', 'Aborted'), ('out_of_range', 'OutOfRange'),
         ('unimplemented', 'Unimplemented'), ('internal', 'Internal'), ('unavailable', 'Unavailable'),
         ('data_loss', 'DataLoss'), ('unauthenticated', 'Unauthenticated')]

STATUS_DEBUG = '''// A-fmt-10: Debug for Status is diagnostics only (needed by Result::unwrap's bound)
#[verifier::external]
impl core::fmt::Debug for Status { fn fmt(&self, f: &mut core::fmt::Formatter<'_>) -> core::fmt::Result { unimplemented!() } }
'''


def _ens(clauses):
    return ',\n            '.join(c[1] for c in clauses)


def status_decls(u: Unit):
    """Code, Status (real declarations) + the spec vocabulary of unit status"""
    S = 'tonic/src/status.rs'
    u.item(S, 'enum', 'Code', derives='Clone, Copy, PartialEq, Eq, Structural')
    u.raw(STATUS_SHIMS)
    u.raw(STATUS_SPEC)
    u.item(S, 'struct', 'Status', edits=[lambda t: t.sub_code('R12', r"Option<Arc<dyn Error \+ Send \+ Sync \+ 'static>>", 'Option<SourceBox>')])
    u.raw(STATUS_DEBUG)
    u.raw(STATUS_REL, props=sorted(set(u.props) | {'C02', 'C04', 'C08'}))


def status_assumed(u: Unit):
    """tonic::Status functions as contracts only (proved in unit status)"""
    ctors = '\n'.join(
        '    #[verifier::external_body]\n    pub fn %s<M>(message: M) -> (r: Status) ensures %s { unimplemented!() }' % (n, CTOR % v)
        for n, v in CTORS)
    u.raw('''
// A-tonic-status-01: contracts of tonic::Status / infer_grpc_status, PROVED on the real bodies in unit `status`
// (identical clause text, units/common.py CONTRACTS); linked here as callee contracts only.
impl Status {
%s
    #[verifier::external_body]
    pub fn new<M>(code: Code, message: M) -> (r: Status) ensures r.code == code && r.details@.len() == 0 && r.metadata.headers@ == %s { unimplemented!() }
    pub fn code(&self) -> (r: Code) ensures r == self.code { self.code }
    pub fn metadata(&self) -> (r: &MetadataMap) ensures *r == self.metadata { &self.metadata }
    pub fn metadata_mut(&mut self) -> (r: &mut MetadataMap) ensures *r == old(self).metadata, *final(r) == final(self).metadata,
        final(self).code == old(self).code, final(self).message == old(self).message, final(self).details == old(self).details { &mut self.metadata }
    #[verifier::external_body]
    pub fn into_http<B: DefaultBody>(self) -> (r: http::Response<B>)
        ensures
            %s,
    { unimplemented!() }
    #[verifier::external_body]
    pub fn to_header_map(&self) -> (r: Result<HeaderMap, Status>)
        ensures
            %s,
    { unimplemented!() }
    #[verifier::external_body]
    pub fn from_header_map(header_map: &HeaderMap) -> (r: Option<Status>)
        ensures
            %s,
    { unimplemented!() }
    #[verifier::external_body]
    pub fn add_header(&self, header_map: &mut HeaderMap) -> (r: Result<(), Status>)
        ensures
            %s,
    { unimplemented!() }
}
pub mod status {
    use crate::*;
    #[verifier::external_body]
    pub fn infer_grpc_status(trailers: Option<&HeaderMap>, status_code: http::StatusCode) -> (r: Result<(), Option<Status>>)
        ensures
            %s,
    { unimplemented!() }
}
''' % (ctors, EMPTY, _ens(CONTRACTS['into_http']), _ens(CONTRACTS['to_header_map']), _ens(CONTRACTS['from_header_map']) + ',\n            read(header_map@, r)',
       _ens(CONTRACTS['add_header']), _ens(CONTRACTS['infer_grpc_status'])))


# the grpc-web trailers header block, shared by units webserver (writer) and webtrailers (reader + round trip)
TRAILER_ROW_SPEC = r'''// the HTTP/1 header block of a trailers map (PROTOCOL-WEB.md): one `name:value\r\n` row per entry, in iteration order
pub open spec fn trailer_row(e: (Seq<char>, Seq<u8>)) -> Seq<u8> { ascii_bytes(e.0) + seq![58u8] + e.1 + seq![13u8, 10u8] }
pub open spec fn block_of(s: Seq<(Seq<char>, Seq<u8>)>) -> Seq<u8> decreases s.len() {
    if s.len() == 0 { Seq::<u8>::empty() } else { block_of(s.drop_last()) + trailer_row(s.last()) }
}
'''
