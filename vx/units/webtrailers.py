"""U9d — tonic-web/src/call.rs: decode_trailers_frame, the HTTP/1 header-block parser of the grpc-web client (after the D7b
repair).  Its result is the row-by-row reading of the block: rows end at CRLF, a row splits at its FIRST colon, one leading
space of the value is dropped, rows are appended in order (repeated names keep every value).  Carries C17 ("the complete
trailers: every name with its full value, including values containing colons and repeated names")."""
import re
from vxlib import Unit, Clause
from units import common

C = 'tonic-web/src/call.rs'

SHIMS = r'''
pub struct Status { pub code: u8, pub id: Ghost<int> }
impl Status {
    // A-status-01: Status::internal has code INTERNAL (13)
    #[verifier::external_body]
    pub fn internal<M>(m: M) -> (r: Status) ensures r.code == 13 { unimplemented!() }
}
impl Bytes {
    // A-bytes-30: Buf for Bytes: get_u8 / get_u32 / copy_to_bytes consume from the front; clone is the same bytes
    #[verifier::external_body]
    pub fn get_u8(&mut self) -> (r: u8) requires old(self)@.len() >= 1 ensures r == old(self)@[0], final(self)@ == old(self)@.skip(1) { unimplemented!() }
    #[verifier::external_body]
    pub fn get_u32(&mut self) -> (r: u32) requires old(self)@.len() >= 4 ensures r as int == be32_val(old(self)@), final(self)@ == old(self)@.skip(4) { unimplemented!() }
    #[verifier::external_body]
    pub fn copy_to_bytes(&mut self, n: usize) -> (r: Bytes) requires n <= old(self)@.len() ensures r@ == old(self)@.take(n as int), final(self)@ == old(self)@.skip(n as int) { unimplemented!() }
    #[verifier::external_body]
    pub fn clone(&self) -> (r: Bytes) ensures r@ == self@ { unimplemented!() }
}
// A-core-26 (R17): `buf.iter().enumerate()` over the bytes: the (index, byte) pairs in order
#[verifier::external_body]
pub fn verif_enumerate<'a>(b: &'a Bytes) -> (r: Vec<(usize, &'a u8)>)
    ensures r@.len() == b@.len(), b@.len() <= isize::MAX as int, forall|i: int| 0 <= i < r@.len() ==> (#[trigger] r@[i]).0 == i && *r@[i].1 == b@[i]
{ unimplemented!() }
// A-core-27 (R17): `buf.get(i) == Some(&x)` through Deref to [u8]: in range and equal
#[verifier::external_body]
pub fn verif_byte_is(b: &Bytes, i: usize, x: u8) -> (r: bool) ensures r == (i < b@.len() && b@[i as int] == x) { unimplemented!() }
// A-core-28 (R17): `.iter().position(|b| b == &X)`: the first index holding X
#[verifier::external_body]
pub fn verif_position(b: &Bytes, x: u8) -> (r: Option<usize>)
    ensures
        r matches Some(k) ==> k < b@.len() && b@[k as int] == x && forall|j: int| 0 <= j < k ==> b@[j] != x,
        r is None ==> forall|j: int| 0 <= j < b@.len() ==> b@[j] != x,
{ unimplemented!() }
// A-core-29 (R17): `&bytes[..k]`, `&bytes[k..]`, `<[u8]>::strip_prefix(b" ").unwrap_or(value)`
#[verifier::external_body]
pub fn verif_upto<'a>(b: &'a Bytes, k: usize) -> (r: &'a [u8]) requires k <= b@.len() ensures r@ == b@.take(k as int) { unimplemented!() }
#[verifier::external_body]
pub fn verif_from<'a>(b: &'a Bytes, k: usize) -> (r: &'a [u8]) requires k <= b@.len() ensures r@ == b@.skip(k as int) { unimplemented!() }
#[verifier::external_body]
pub fn verif_strip_one_space<'a>(v: &'a [u8]) -> (r: &'a [u8]) ensures r@ == strip_space(v@) { unimplemented!() }
pub open spec fn strip_space(v: Seq<u8>) -> Seq<u8> { if v.len() > 0 && v[0] == 32u8 { v.skip(1) } else { v } }
// A-http-18: HeaderName::try_from(&[u8]) accepts exactly the valid header names (normalised to lower case) and
// HeaderValue::try_from(&[u8]) exactly the legal value bytes
pub uninterp spec fn hname_parse(b: Seq<u8>) -> Option<Seq<char>>;
#[derive(Debug)]
pub struct InvalidHeaderName { pub x: u8 }
impl HeaderName {
    #[verifier::external_body]
    pub fn try_from(b: &[u8]) -> (r: Result<HeaderName, InvalidHeaderName>)
        ensures r is Ok <==> hname_parse(b@) is Some, r matches Ok(n) ==> Some(n@) == hname_parse(b@)
    { unimplemented!() }
}
impl HeaderValue {
    #[verifier::external_body]
    pub fn try_from(b: &[u8]) -> (r: Result<HeaderValue, InvalidHeaderValue>)
        ensures r is Ok <==> legal_value(b@), r matches Ok(v) ==> v@ == b@
    { unimplemented!() }
}
'''

SPEC = r'''
// ---- the reading of a trailers header block, written from PROTOCOL-WEB.md / RFC 7230 field syntax, no tonic code ----
pub open spec fn crlf_at(s: Seq<u8>, i: int) -> bool { 0 <= i && i + 1 < s.len() && s[i] == 13u8 && s[i + 1] == 10u8 }
// rows of s found by a left-to-right scan: `cur` is where the current row starts, `i` the scan position
pub open spec fn scan(s: Seq<u8>, cur: int, i: int) -> Seq<Seq<u8>>
    decreases s.len() - i
{
    if i < 0 || i >= s.len() || cur < 0 { Seq::empty() }
    else if crlf_at(s, i) && cur <= i { seq![s.subrange(cur, i)] + scan(s, i + 2, i + 1) }
    else { scan(s, cur, i + 1) }
}
pub open spec fn first_colon(row: Seq<u8>) -> Option<int> {
    if exists|k: int| 0 <= k < row.len() && row[k] == 58u8 { Some(choose|k: int| 0 <= k < row.len() && row[k] == 58u8 && forall|j: int| 0 <= j < k ==> row[j] != 58u8) } else { None }
}
// one row `name:value` (value = everything after the FIRST colon, minus one leading space)
pub open spec fn row_entry(row: Seq<u8>) -> Option<(Seq<char>, Seq<u8>)> {
    match first_colon(row) {
        None => None,
        Some(k) => match hname_parse(row.take(k)) {
            None => None,
            Some(n) => if legal_value(strip_space(row.skip(k + 1))) { Some((n, strip_space(row.skip(k + 1)))) } else { None },
        },
    }
}
// the map built from the first n rows, appended in order; None as soon as a row is malformed
pub open spec fn rows_map(rows: Seq<Seq<u8>>, n: int) -> Option<HMap>
    decreases n
{
    if n <= 0 || n > rows.len() { Some(Map::<Seq<char>, Seq<Seq<u8>>>::empty()) }
    else { match rows_map(rows, n - 1) {
        None => None,
        Some(m) => match row_entry(rows[n - 1]) { None => None, Some(e) => Some(hmap_append(m, e.0, e.1)) },
    } }
}
pub open spec fn rows_view(v: Seq<Bytes>) -> Seq<Seq<u8>> { v.map_values(|b: Bytes| b@) }
pub proof fn lemma_rows_map_none_mono(rows: Seq<Seq<u8>>, k: int, n: int)
    requires 0 <= k <= n <= rows.len(), rows_map(rows, k) is None
    ensures rows_map(rows, n) is None
    decreases n - k
{
    if k < n { lemma_rows_map_none_mono(rows, k, n - 1); }
}
pub proof fn lemma_first_colon(row: Seq<u8>, k: int)
    requires 0 <= k < row.len(), row[k] == 58u8, forall|j: int| 0 <= j < k ==> row[j] != 58u8
    ensures first_colon(row) == Some(k)
{
    let c = choose|c: int| 0 <= c < row.len() && row[c] == 58u8 && forall|j: int| 0 <= j < c ==> row[j] != 58u8;
    assert(0 <= k < row.len() && row[k] == 58u8 && forall|j: int| 0 <= j < k ==> row[j] != 58u8);
    if c < k { assert(row[c] != 58u8); } else if k < c { assert(row[k] != 58u8); }
}
pub proof fn lemma_no_colon(row: Seq<u8>)
    requires forall|j: int| 0 <= j < row.len() ==> row[j] != 58u8
    ensures first_colon(row) is None
{
}
'''

ROUNDTRIP = r'''
// ---- round trip with the grpc-web SERVER side (unit webserver proves that the 0x80 frame carries block_of(entries)) ----
// A-http-19: a HeaderName's text is a token: lower-case, no colon, no CR / LF, and parses back to itself
pub open spec fn name_ok(k: Seq<char>) -> bool {
    hname_parse(ascii_bytes(k)) == Some(k) && forall|j: int| 0 <= j < ascii_bytes(k).len() ==> ascii_bytes(k)[j] != 58u8 && ascii_bytes(k)[j] != 13u8 && ascii_bytes(k)[j] != 10u8
}
// values the reader gives back unchanged: legal header-value bytes that do not start with a space (one leading space is
// optional whitespace to the reader)
pub open spec fn entry_ok(e: (Seq<char>, Seq<u8>)) -> bool { name_ok(e.0) && legal_value(e.1) && !(e.1.len() > 0 && e.1[0] == 32u8) }
pub open spec fn row_of(e: (Seq<char>, Seq<u8>)) -> Seq<u8> { ascii_bytes(e.0) + seq![58u8] + e.1 }
pub open spec fn rows_of(s: Seq<(Seq<char>, Seq<u8>)>) -> Seq<Seq<u8>> { s.map_values(|e: (Seq<char>, Seq<u8>)| row_of(e)) }
pub open spec fn entries_map(s: Seq<(Seq<char>, Seq<u8>)>, n: int) -> HMap
    decreases n
{
    if n <= 0 || n > s.len() { Map::<Seq<char>, Seq<Seq<u8>>>::empty() } else { hmap_append(entries_map(s, n - 1), s[n - 1].0, s[n - 1].1) }
}
pub proof fn lemma_scan_shift(a: Seq<u8>, b: Seq<u8>, cur: int, i: int)
    requires 0 <= cur, 0 <= i
    ensures scan(a + b, a.len() + cur, a.len() + i) == scan(b, cur, i)
    decreases b.len() - i
{
    let s = a + b; let n = a.len() as int;
    if i < b.len() {
        assert(crlf_at(s, n + i) == crlf_at(b, i)) by { if i + 1 < b.len() { assert(s[n + i] == b[i] && s[n + i + 1] == b[i + 1]); } else { assert(s[n + i] == b[i]); } }
        if crlf_at(b, i) && cur <= i {
            lemma_scan_shift(a, b, i + 2, i + 1);
            assert(s.subrange(n + cur, n + i) =~= b.subrange(cur, i));
        } else {
            lemma_scan_shift(a, b, cur, i + 1);
        }
    }
}
// scanning `row CRLF rest` where row has no CR: the first row found is `row`, the scan continues in `rest`
pub proof fn lemma_scan_row(row: Seq<u8>, rest: Seq<u8>, i: int)
    requires 0 <= i <= row.len(), forall|j: int| 0 <= j < row.len() ==> row[j] != 13u8
    ensures scan(row + seq![13u8, 10u8] + rest, 0, i) == seq![row] + scan(rest, 0, 0)
    decreases row.len() - i
{
    let s = row + seq![13u8, 10u8] + rest; let n = row.len() as int;
    assert(s[n] == 13u8 && s[n + 1] == 10u8);
    if i < n {
        assert(s[i] == row[i]);
        assert(!crlf_at(s, i));
        lemma_scan_row(row, rest, i + 1);
    } else {
        assert(crlf_at(s, n));
        assert(s.subrange(0, n) =~= row);
        assert(!crlf_at(s, n + 1));
        // scan(s, n + 2, n + 1) steps over the LF to scan(s, n + 2, n + 2), which is the scan of `rest`
        assert(scan(s, n + 2, n + 1) == scan(s, n + 2, n + 2)) by { reveal_with_fuel(scan, 2); }
        lemma_scan_shift(row + seq![13u8, 10u8], rest, 0, 0);
        assert((row + seq![13u8, 10u8]).len() == n + 2);
    }
}
pub proof fn lemma_block_front(s: Seq<(Seq<char>, Seq<u8>)>)
    requires s.len() > 0
    ensures block_of(s) == trailer_row(s[0]) + block_of(s.skip(1))
    decreases s.len()
{
    if s.len() == 1 {
        assert(s.drop_last() =~= Seq::<(Seq<char>, Seq<u8>)>::empty());
        assert(s.skip(1) =~= Seq::<(Seq<char>, Seq<u8>)>::empty());
        assert(block_of(s.drop_last()) =~= Seq::<u8>::empty()); assert(block_of(s.skip(1)) =~= Seq::<u8>::empty());
        assert(block_of(s) =~= trailer_row(s[0]) + Seq::<u8>::empty());
    } else {
        lemma_block_front(s.drop_last());
        assert(s.drop_last().skip(1) =~= s.skip(1).drop_last());
        assert(s.skip(1).last() == s.last());
        assert(s.drop_last()[0] == s[0]);
        assert((trailer_row(s[0]) + block_of(s.skip(1).drop_last())) + trailer_row(s.last()) =~= trailer_row(s[0]) + (block_of(s.skip(1).drop_last()) + trailer_row(s.last())));
    }
}
pub proof fn lemma_row_entry(e: (Seq<char>, Seq<u8>))
    requires entry_ok(e)
    ensures row_entry(row_of(e)) == Some(e), forall|j: int| 0 <= j < row_of(e).len() ==> row_of(e)[j] != 13u8
{
    let nb = ascii_bytes(e.0); let row = row_of(e); let k = nb.len() as int;
    assert(row[k] == 58u8);
    assert forall|j: int| 0 <= j < k implies row[j] != 58u8 by { assert(row[j] == nb[j]); }
    lemma_first_colon(row, k);
    assert(row.take(k) =~= nb);
    assert(row.skip(k + 1) =~= e.1);
    assert forall|j: int| 0 <= j < row.len() implies row[j] != 13u8 by {
        if j < k { assert(row[j] == nb[j]); } else if j > k { assert(row[j] == e.1[j - k - 1]); assert(legal_value_byte(e.1[j - k - 1])); }
    }
}
pub proof fn lemma_scan_block(s: Seq<(Seq<char>, Seq<u8>)>)
    requires forall|i: int| 0 <= i < s.len() ==> entry_ok(#[trigger] s[i])
    ensures scan(block_of(s), 0, 0) == rows_of(s)
    decreases s.len()
{
    if s.len() == 0 {
        assert(block_of(s) =~= Seq::<u8>::empty());
        assert(rows_of(s) =~= Seq::<Seq<u8>>::empty());
    } else {
        lemma_block_front(s);
        lemma_row_entry(s[0]);
        let rest = block_of(s.skip(1));
        assert(trailer_row(s[0]) + rest =~= row_of(s[0]) + seq![13u8, 10u8] + rest);
        lemma_scan_row(row_of(s[0]), rest, 0);
        assert forall|i: int| 0 <= i < s.skip(1).len() implies entry_ok(#[trigger] s.skip(1)[i]) by { assert(s.skip(1)[i] == s[i + 1]); }
        lemma_scan_block(s.skip(1));
        assert(seq![row_of(s[0])] + rows_of(s.skip(1)) =~= rows_of(s));
    }
}
pub proof fn lemma_rows_map_entries(s: Seq<(Seq<char>, Seq<u8>)>, n: int)
    requires forall|i: int| 0 <= i < s.len() ==> entry_ok(#[trigger] s[i]), 0 <= n <= s.len()
    ensures rows_map(rows_of(s), n) == Some(entries_map(s, n))
    decreases n
{
    if n > 0 {
        lemma_rows_map_entries(s, n - 1);
        lemma_row_entry(s[n - 1]);
        assert(rows_of(s)[n - 1] == row_of(s[n - 1]));
    }
}
// THE ROUND TRIP: what decode_trailers_frame's contract (D1) makes of the header block the server side writes for the entries
// s is the map obtained by appending the entries in order - every name with its full value, repeated names keep every value
pub proof fn lemma_trailers_block_roundtrip(s: Seq<(Seq<char>, Seq<u8>)>)
    requires forall|i: int| 0 <= i < s.len() ==> entry_ok(#[trigger] s[i])
    ensures rows_map(scan(block_of(s), 0, 0), scan(block_of(s), 0, 0).len() as int) == Some(entries_map(s, s.len() as int))
{
    lemma_scan_block(s);
    lemma_rows_map_entries(s, s.len() as int);
    assert(rows_of(s).len() == s.len());
}
'''


def build():
    u = Unit('webtrailers', ['C17'])
    common.http_base(u)
    u.prelude('wire.rs')
    u.raw(SHIMS)
    u.raw(SPEC)
    u.raw(common.TRAILER_ROW_SPEC)
    u.raw(ROUNDTRIP, props=['C16', 'C17'])
    u.item(C, 'const', 'GRPC_HEADER_SIZE')
    BLOCK = 'buf@.skip(5)'
    ROWS = 'scan(%s, 0, 0)' % BLOCK
    edits = [
        lambda t: t.sub_code('R22', r'for \(i, b\) in buf\.iter\(\)\.enumerate\(\) \{', 'for verif_p in verif_enumerate(&buf) { let (i, b) = verif_p;'),
        lambda t: t.sub_code('R17', r"b == &b'\\r' && buf\.get\(i \+ 1\) == Some\(&b'\\n'\)", lambda m: "*b == b'\\r' && verif_byte_is(&buf, i + 1, b'\\n')"),
        lambda t: t.sub_code('R17', r"trailer\s*\.iter\(\)\s*\.position\(\|b\| b == &b':'\)", "verif_position(&trailer, b':')"),
        lambda t: t.sub_code('R17', r'&trailer\[\.\.([^\]]+)\]', r'verif_upto(&trailer, \1)'),
        lambda t: t.sub_code('R17', r'&trailer\[([^\]]+?)\.\.\]', r'verif_from(&trailer, \1)'),
        lambda t: t.sub_code('R17', r'value\.strip_prefix\(b" "\)\.unwrap_or\(value\)', 'verif_strip_one_space(value)'),
    ]
    u.fn(C, 'decode_trailers_frame', body_edits=edits,
         attrs=['#[verifier::loop_isolation(false)]'],
         closures={0: dict(params='', ret='(o: Status)', ensures=['o.code == 13']),
                   1: dict(params='e: InvalidHeaderName', ret='(o: Status)', ensures=['o.code == 13']),
                   2: dict(params='e: InvalidHeaderValue', ret='(o: Status)', ensures=['o.code == 13'])},
         body_start='    broadcast use lemma_skip_skip; let ghost b0 = buf@;',
         hints=[('before', 'let mut map = HeaderMap::new();', '    let ghost blk = buf@; proof { assert(blk =~= b0.skip(5)); }'),
                ('before', 'let trailer = temp_buf.copy_to_bytes(i - cursor_pos);', '            proof { assert(temp_buf@.take(i - cursor_pos) =~= blk.subrange(cursor_pos as int, i as int)); }'),
                ('after', 'trailers.push(trailer);', '            proof { assert(rows_view(trailers@) =~= rows_view(trailers@.drop_last()).push(trailer@)); assert(trailers@.drop_last() =~= old_rows); }'),
                ('before', 'let trailer = temp_buf.copy_to_bytes(i - cursor_pos);', '            let ghost old_rows = trailers@;', 0),
                ('before', 'for trailer in jt: trailers', '    let ghost rows = rows_view(trailers@); proof { assert(rows =~= scan(blk, 0, 0)); }'),
                ('before', 'let key = verif_upto', '        proof { lemma_first_colon(trailer@, colon as int); }'),
                ('before', 'let colon = verif_position', '''        let ghost m0 = map@; let ghost ix = jt.index@ as int;
        proof { assert(rows[ix] == trailer@);
            if forall|j: int| 0 <= j < trailer@.len() ==> trailer@[j] != 58u8 { lemma_no_colon(trailer@); assert(rows_map(rows, ix + 1) is None); lemma_rows_map_none_mono(rows, ix + 1, rows.len() as int); } }'''),
                ('before', 'let header_key = HeaderName::try_from(key)', '''        proof { if hname_parse(key@) is None { assert(row_entry(trailer@) is None); assert(rows_map(rows, ix + 1) is None); lemma_rows_map_none_mono(rows, ix + 1, rows.len() as int); } }'''),
                ('before', 'let header_value = HeaderValue::try_from(value)', '''        proof { if !legal_value(value@) { assert(row_entry(trailer@) is None); assert(rows_map(rows, ix + 1) is None); lemma_rows_map_none_mono(rows, ix + 1, rows.len() as int); } }''')],
         loops={0: dict(iter='it', invariant=[
                    'blk == buf@', 'it.seq().len() == blk.len()', 'blk.len() <= isize::MAX as int',
                    'forall|k: int| 0 <= k < it.seq().len() ==> (#[trigger] it.seq()[k]).0 == k && *it.seq()[k].1 == blk[k]',
                    'cursor_pos <= it.index@ + 1', 'cursor_pos == it.index@ + 1 ==> it.index@ < blk.len() && blk[it.index@ as int] == 10u8',
                    'cursor_pos <= blk.len() ==> temp_buf@ == blk.skip(cursor_pos as int)',
                    'cursor_pos <= blk.len() + 1',
                    'scan(blk, 0, 0) == rows_view(trailers@) + scan(blk, cursor_pos as int, it.index@ as int)']),
                1: dict(iter='jt', invariant=['jt.seq() == trailers@', 'rows == rows_view(trailers@)', 'rows_map(rows, jt.index@ as int) == Some(map@)'])},
         ensures=[Clause('D0_a_frame_without_a_complete_header_is_no_trailers', 'buf@.len() < 5 ==> (r matches Ok(None))'),
                  Clause('D1_every_row_is_read_name_before_the_first_colon_full_value_after_it_repeated_names_kept',
                         'buf@.len() >= 5 ==> match rows_map(%s, %s.len() as int) { Some(m) => r matches Ok(Some(h)) && h@ == m, None => r matches Err(st) && st.code == 13 }' % (ROWS, ROWS))])
    return u
