"""U21 — tonic/src/codec/prost.rs: the default codec.  ProstEncoder::encode appends exactly the protobuf serialisation of the
message (and never fails), ProstDecoder::decode reads the whole payload and returns the message it denotes, or an INTERNAL
status when prost refuses it, never Ok(None).  These are the contracts units encode / decode ASSUME of a codec (A-codec-01,
A-codec-03); here they are proved for tonic's own codec, relative to prost being an inverse pair (A-prost-10).  Carries the
codec part of C01 / C03 / C07."""
import re
from vxlib import Unit, Clause
from units import common, encode, decode

P = 'tonic/src/codec/prost.rs'


def trait_text(src, name):
    i = src.index('pub trait %s {' % name)
    depth = 0
    for j in range(i, len(src)):
        if src[j] == '{':
            depth += 1
        elif src[j] == '}':
            depth -= 1
            if depth == 0:
                return src[i:j + 1]
    raise ValueError(name)


SHIMS = r'''
// ---- prost, as far as the default codec uses it ----
// A-prost-10: prost's encoding of a message and its decoder are an inverse pair (nothing else is assumed of the wire format)
pub uninterp spec fn pb_wire<M>(m: M) -> Seq<u8>;
pub uninterp spec fn pb_parse<M>(b: Seq<u8>) -> Option<M>;
pub broadcast axiom fn axiom_pb_roundtrip<M>(m: M) ensures #[trigger] pb_parse::<M>(pb_wire(m)) == Some(m);
pub mod prost {
    #[derive(Debug)]
    pub struct EncodeError { pub x: u8 }
    pub struct DecodeError { pub x: u8 }
    impl DecodeError { #[verifier::external_body] pub fn to_string(&self) -> (r: String) { unimplemented!() } }
}
// A-prost-15: Message::encode into an EncodeBuf (a growable BytesMut: never short of room) appends exactly the encoding;
// Message::decode reads ALL remaining bytes of the DecodeBuf (`while buf.has_remaining()`), yielding the message they denote
pub trait Message: Sized {
    fn encode(&self, buf: &mut EncodeBuf<'_>) -> (r: Result<(), prost::EncodeError>)
        ensures r is Ok, (*final(buf).buf)@ == (*old(buf).buf)@ + pb_wire(*self),
            *final(final(buf).buf) == *final(old(buf).buf), final(buf).buf.reserve_bound == old(buf).buf.reserve_bound;
    fn decode(buf: &mut DecodeBuf<'_>) -> (r: Result<Self, prost::DecodeError>)
        requires old(buf).wf()
        ensures
            r is Ok <==> pb_parse::<Self>(old(buf).payload()) is Some,
            r matches Ok(m) ==> Some(m) == pb_parse::<Self>(old(buf).payload()) && final(buf).len == 0 && (*final(buf).buf)@ == (*old(buf).buf)@.skip(old(buf).len as int),
            *final(final(buf).buf) == *final(old(buf).buf), final(buf).buf.reserve_bound == old(buf).buf.reserve_bound;
}
pub use core::marker::PhantomData;
'''


def build():
    u = Unit('prostcodec', ['C01', 'C03', 'C07'])
    common.http_base(u)
    common.metadata_core(u, props_sanitize=('C08',))
    common.status_decls(u)
    common.status_assumed(u)
    CM = 'tonic/src/codec/mod.rs'
    u.item(CM, 'struct', 'BufferSettings', derives='Clone, Copy')
    u.item(CM, 'const', 'DEFAULT_CODEC_BUFFER_SIZE')
    u.item(CM, 'const', 'DEFAULT_YIELD_THRESHOLD')
    u.raw('// sane buffer settings (as in prelude codec.rs): a non-zero growth interval that cannot overflow address arithmetic\n'
          'pub open spec fn sane(b: BufferSettings) -> bool { 0 < b.buffer_size && b.buffer_size <= 0x4000_0000_0000_0000 }')
    u._emit('impl BufferSettings {'); u._open_header = 'impl BufferSettings {'
    u.fn(CM, 'new', within='impl BufferSettings', display='BufferSettings::new', ensures=[Clause('S0_the_given_sizes', 'r.buffer_size == buffer_size && r.yield_threshold == yield_threshold')])
    u.fn(CM, 'default', within='impl Default for BufferSettings', display='BufferSettings::default',
         ensures=[Clause('S1_the_default_settings_are_sane', 'sane(r) && r.buffer_size == 8192 && r.yield_threshold == 32768')])
    u.close('}')
    u.item('tonic/src/codec/buffer.rs', 'struct', 'DecodeBuf')
    u.raw('pub struct EncodeBuf<\'a> { pub buf: &\'a mut BytesMut }\n'
          '// the codec-side contracts, verbatim from units encode / decode (there they are assumed of ANY codec)\n'
          + trait_text(encode.SHIMS, 'Encoder') + '\n' + trait_text(decode.SHIMS, 'Decoder') + '\n' +
          "impl<'a> DecodeBuf<'a> {\n    pub open spec fn wf(&self) -> bool { self.len <= (*self.buf)@.len() }\n    pub open spec fn payload(&self) -> Seq<u8> { (*self.buf)@.take(self.len as int) }\n}\n")
    u.raw(SHIMS)
    pd = []
    u.item(P, 'struct', 'ProstEncoder', edits=pd)
    u.item(P, 'struct', 'ProstDecoder', edits=pd)
    u.fn(P, 'from_decode_error', ensures=[Clause('D0_a_protobuf_parse_error_is_internal', 'r.code == Code::Internal')])
    se = [lambda t: t.sub_code('R9', r'Self::Item', 'T'), lambda t: t.sub_code('R9', r'Self::Error', 'Status')]
    hdr = 'impl<T: Message> Encoder for ProstEncoder<T>'
    u._emit(hdr + ' {\n    type Item = T;\n    type Error = Status;\n    open spec fn ser(item: T) -> Seq<u8> { pb_wire(item) }\n    open spec fn ser_ok(item: T) -> bool { true }')
    u._open_header = hdr + ' {'
    u.fn(P, 'encode', within=hdr, sig_edits=se, display='ProstEncoder::encode',
         ensures=[Clause('E1_the_encoder_appends_exactly_the_protobuf_serialisation_and_never_fails', 'r is Ok && (*final(buf).buf)@ == (*old(buf).buf)@ + pb_wire(item)')])
    u._emit('    // A-codec-05: the buffer settings a codec is made with are sane (assumed of whoever constructs it); the real accessor is verified below')
    u._emit('    #[verifier::external_body] fn buffer_settings(&self) -> (r: BufferSettings) { self.buffer_settings }')
    u.close('}')
    u._emit('impl<T> ProstEncoder<T> {'); u._open_header = 'impl<T> ProstEncoder<T> {'
    u.fn(P, 'buffer_settings', within=hdr, display='ProstEncoder::buffer_settings', ensures=[Clause('E2_the_settings_it_was_made_with', 'r == self.buffer_settings')])
    u.fn(P, 'new', within='impl<T> ProstEncoder<T>', display='ProstEncoder::new', ensures=[Clause('E3_made_with_these_settings', 'r.buffer_settings == buffer_settings')])
    u.close('}')
    sd = [lambda t: t.sub_code('R9', r'Self::Item', 'U'), lambda t: t.sub_code('R9', r'Self::Error', 'Status')]
    hdr = 'impl<U: Message + Default> Decoder for ProstDecoder<U>'
    u._emit('impl<U: Message> Decoder for ProstDecoder<U> {\n    type Item = U;\n    type Error = Status;\n    open spec fn dec(&self, payload: Seq<u8>) -> Option<U> { pb_parse::<U>(payload) }')
    u._open_header = 'impl<U: Message> Decoder for ProstDecoder<U> {'
    u.fn(P, 'decode', within=hdr, sig_edits=sd, display='ProstDecoder::decode',
         closures={0: dict(params='e: U', ret='(x: Option<U>)', ensures=['x == Some(e)'])},
         body_edits=[lambda t: t.sub_code('R3', r'\.map\(Option::Some\)', '.map(|e| Option::Some(e))'),
                     lambda t: t.sub_code('R17', r'Message::decode\(buf\)', '<U as Message>::decode(buf)')],
         ensures=[Clause('D1_the_whole_payload_is_read_as_the_message_it_denotes', 'r matches Ok(Some(m)) ==> pb_parse::<U>(old(buf).payload()) == Some(m) && final(buf).len == 0'),
                  Clause('D2_never_ok_none', '!(r matches Ok(None))'),
                  Clause('D3_an_undecodable_payload_is_an_internal_error', '(r is Err <==> pb_parse::<U>(old(buf).payload()) is None) && (r matches Err(st) ==> st.code == Code::Internal)')])
    u._emit('    // A-codec-05: as for the encoder')
    u._emit('    #[verifier::external_body] fn buffer_settings(&self) -> (r: BufferSettings) { self.buffer_settings }')
    u.close('}')
    u._emit('impl<U> ProstDecoder<U> {'); u._open_header = 'impl<U> ProstDecoder<U> {'
    u.fn(P, 'buffer_settings', within=hdr, display='ProstDecoder::buffer_settings', ensures=[Clause('D4_the_settings_it_was_made_with', 'r == self.buffer_settings')])
    u.fn(P, 'new', within='impl<U> ProstDecoder<U>', display='ProstDecoder::new', ensures=[Clause('D5_made_with_these_settings', 'r.buffer_settings == buffer_settings')])
    u.close('}')
    # the codec object: its halves are made with the default (sane) settings, or with the ones given to raw_*
    u.item(P, 'struct', 'ProstCodec')
    u._emit('impl<T: Message, U: Message> ProstCodec<T, U> {'); u._open_header = 'impl<T: Message, U: Message> ProstCodec<T, U> {'
    q = [lambda t: t.sub_code('R9', r'<Self as Codec>::Encoder', 'ProstEncoder<T>'), lambda t: t.sub_code('R9', r'<Self as Codec>::Decoder', 'ProstDecoder<U>'),
         lambda t: t.sub_code('R9', r'Self::Encoder', 'ProstEncoder<T>'), lambda t: t.sub_code('R9', r'Self::Decoder', 'ProstDecoder<U>')]
    u.fn(P, 'raw_encoder', within='impl<T, U> ProstCodec<T, U>', nth=0, sig_edits=q, display='ProstCodec::raw_encoder', ensures=[Clause('P1_made_with_these_settings', 'r.buffer_settings == buffer_settings')])
    u.fn(P, 'raw_decoder', within='impl<T, U> ProstCodec<T, U>', nth=0, sig_edits=q, display='ProstCodec::raw_decoder', ensures=[Clause('P1_made_with_these_settings', 'r.buffer_settings == buffer_settings')])
    u.fn(P, 'encoder', within='impl<T, U> Codec for ProstCodec<T, U>', sig_edits=q, display='ProstCodec::encoder', ensures=[Clause('P2_the_default_encoder_has_sane_settings', 'sane(r.buffer_settings)')])
    u.fn(P, 'decoder', within='impl<T, U> Codec for ProstCodec<T, U>', sig_edits=q, display='ProstCodec::decoder', ensures=[Clause('P2_the_default_decoder_has_sane_settings', 'sane(r.buffer_settings)')])
    u.close('}')
    return u
