"""U25 — the builder side of tonic-types' rich error details: the constructors of the ten standard messages (std_messages/*.rs:
new / with_violation / with_link / add_violation / add_link and the row constructors) and the ErrorDetails builder API
(error_details/mod.rs: with_* / set_* / add_* / has_* and the getters).  What C20 needs of them: the value a caller assembles
is made of exactly the pieces given - each builder fills its own field (or appends its own row, in order) with the arguments
it was handed and leaves every other field alone - so that "recovered unchanged" speaks about what the caller meant.
`impl Into<T>` parameters are specialised to `T` (R12), for which `.into()` is the identity (A-core-26)."""
import re
from vxlib import Unit, Clause, read_src, find_fn, Infra
from units.richerror import KINDS, FIELD_OF, R, ED, snake

SHIMS = r'''
use std::time;
use std::collections::HashMap;
// A-core-26: `impl<T> From<T> for T` is the identity (what `.into()` is once `impl Into<T>` is specialised to `T`)
pub assume_specification<T>[<T as From<T>>::from](t: T) -> (r: T) ensures r == t;
'''

# constructors per kind: (fn name, [(param, field or row-field)], what)
ROW_ADD = {'QuotaFailure': ('with_violation', 'add_violation'), 'PreconditionFailure': ('with_violation', 'add_violation'),
           'BadRequest': ('with_violation', 'add_violation'), 'Help': ('with_link', 'add_link')}


def into_params(t):
    """R12: `impl Into<T>` -> `T` (balanced angle brackets)"""
    while True:
        m = re.search(r'impl Into<', t.t)
        if not m:
            return
        i = m.end()
        depth = 1
        while depth:
            depth += {'<': 1, '>': -1}.get(t.t[i], 0)
            i += 1
        t.edit('R12', m.start(), i, t.t[m.end():i - 1], 'impl Into<T> specialised to T')


def rawparam(t):
    """R34: a parameter named by a raw identifier (`r#type`) is alpha-renamed to `verif_type`: this Verus crashes ("discovered_error")
    when a contract mentions such a parameter; field names keep their spelling"""
    t.sub_code('R34', r'\br#type(\s*:\s*(?:impl Into<String>|String))', r'verif_type\1')
    t.sub_code('R34', r'\br#type\.into\(\)', 'verif_type.into()')


def params_of(file, name, within):
    src = read_src(file)
    loc = find_fn(src, name, 0, within)
    sig = src[loc['sig_start']:loc['body_open']]
    inner = sig[sig.index('(') + 1:sig.rindex(')')]
    return [('verif_type' if p == 'r#type' else p) for p in re.findall(r'((?:r#)?\w+)\s*:', inner) if p not in ('self',)]


def build():
    u = Unit('richbuild', ['C20'])
    u.prelude('base.rs')
    u.raw(SHIMS)
    rows = {}
    for k, f, lay in KINDS:
        F = R + 'std_messages/' + f
        for fld, kind in lay:
            if kind.startswith('rows|'):
                _, sub, _, fs = kind.split('|')
                rows[k] = (fld, sub, fs.split(','))
                u.item(F, 'struct', sub)
        u.item(F, 'struct', k)
    u.item(ED, 'struct', 'ErrorDetails')
    flds = [FIELD_OF[k] for k, _, _ in KINDS]
    u.raw('// A-std-default-02: #[derive(Default)] on ErrorDetails (the derive is dropped with the attributes): every field is None\n'
          'impl Default for ErrorDetails {\n    fn default() -> (r: Self) ensures %s { ErrorDetails { %s } }\n}' % (
              ' && '.join('r.%s is None' % f for f in flds), ', '.join('%s: None' % f for f in flds)))
    u.raw('// A-tonic-link-20: RetryInfo::new clamps the delay to the protobuf range: under contract in unit richerror (N1, N2); here it is\n'
          '// an opaque function of its argument\n'
          'pub uninterp spec fn retry_info_of(d: Option<time::Duration>) -> RetryInfo;\n'
          'impl RetryInfo {\n    #[verifier::external_body]\n    pub fn new(retry_delay: Option<time::Duration>) -> (r: Self) ensures r == retry_info_of(retry_delay) { unimplemented!() }\n}')
    sp = [rawparam, into_params]
    made = {}   # kind -> spec text of "value made by new(args)" as a predicate over (v, args)
    for k, f, lay in KINDS:
        F = R + 'std_messages/' + f
        if k in rows:
            fld, sub, fs = rows[k]
            u._emit('impl %s {' % sub); u._open_header = 'impl %s {' % sub
            ps = params_of(F, 'new', 'impl %s$' % sub)
            u.fn(F, 'new', within='impl %s$' % sub, sig_edits=sp, body_edits=[rawparam], display='%s::new' % sub,
                 ensures=[Clause('R1_a_row_made_of_the_pieces_given', ' && '.join('r.%s == %s' % (x, p) for x, p in zip(fs, ps)))])
            u.close('}')
        if k == 'RetryInfo':
            continue
        u._emit('impl %s {' % k); u._open_header = 'impl %s {' % k
        ps = params_of(F, 'new', 'impl %s$' % k)
        names = [fl for fl, _ in lay]
        if len(ps) != len(names):
            raise Infra('%s::new: %d parameters for %d fields' % (k, len(ps), len(names)))
        u.fn(F, 'new', within='impl %s$' % k, sig_edits=sp, display='%s::new' % k,
             ensures=[Clause('B1_made_of_the_pieces_given', ' && '.join('r.%s == %s' % (x, p) for x, p in zip(names, ps)))])
        if k in rows:
            fld, sub, fs = rows[k]
            w, a = ROW_ADD[k]
            ps = params_of(F, w, 'impl %s$' % k)
            row = ' && '.join('%%s.%s == %s' % (x, p) for x, p in zip(fs, ps))
            u.fn(F, w, within='impl %s$' % k, sig_edits=sp, body_edits=[rawparam], display='%s::%s' % (k, w),
                 ensures=[Clause('B2_exactly_one_row_made_of_the_pieces_given', 'r.%s@.len() == 1 && %s' % (fld, row % (('r.%s@[0]' % fld,) * len(fs))))])
            ps = params_of(F, a, 'impl %s$' % k)
            row = ' && '.join('%%s.%s == %s' % (x, p) for x, p in zip(fs, ps))
            u.fn(F, a, within='impl %s$' % k, sig_edits=sp, body_edits=[rawparam], display='%s::%s' % (k, a),
                 ensures=[Clause('B3_one_more_row_after_the_existing_ones',
                                 '(*r).%s@.len() == old(self).%s@.len() + 1 && (*r).%s@.take(old(self).%s@.len() as int) == old(self).%s@ && %s && *final(r) == *final(self)' % (
                                     fld, fld, fld, fld, fld, row % (('(*r).%s@.last()' % fld,) * len(fs))))])
        u.close('}')
    # ---- ErrorDetails ----
    src = read_src(ED)
    names = re.findall(r'^\s*pub fn (\w+)', src, re.M)
    W = 'impl ErrorDetails$'
    u.raw('// A-derive-20: #[derive(Clone)] on the detail structs (dropped with the attributes) - not needed: the getters hand out references')
    u._emit('impl ErrorDetails {'); u._open_header = 'impl ErrorDetails {'
    u.fn(ED, 'new', within=W, display='ErrorDetails::new', ensures=[Clause('N1_a_new_set_is_empty', ' && '.join('r.%s is None' % f for f in flds))])

    def others(base, keep, me):
        return ' && '.join('%s.%s == %s.%s' % (me, f, base, f) for f in flds if f != keep)

    def value_clause(k, v, ps):
        """what `v` (of kind k) must be, given the builder's parameters ps (in the order of K::new)"""
        if k == 'RetryInfo':
            return '%s == retry_info_of(%s)' % (v, ps[0])
        lay = [l for kk, _, l in KINDS if kk == k][0]
        return ' && '.join('%s.%s == %s' % (v, fl, p) for (fl, _), p in zip(lay, ps))

    done = {'new'}
    for k, _, lay in KINDS:
        f = FIELD_OF[k]
        for pre in ('with_', 'set_'):
            n = pre + f
            if n not in names:
                raise Infra('ErrorDetails::%s not found' % n)
            ps = params_of(ED, n, W)
            if pre == 'with_':
                ens = [Clause('W1_only_this_detail_is_present_and_it_is_made_of_the_pieces_given',
                              'r.%s matches Some(v) && %s && %s' % (f, value_clause(k, 'v', ps), ' && '.join('r.%s is None' % x for x in flds if x != f)))]
            else:
                ens = [Clause('S1_this_detail_is_replaced_by_one_made_of_the_pieces_given_the_others_stay',
                              '(*r).%s matches Some(v) && %s && %s && *final(r) == *final(self)' % (f, value_clause(k, 'v', ps), others('old(self)', f, '(*r)')))]
            u.fn(ED, n, within=W, sig_edits=sp, display='ErrorDetails::' + n, ensures=ens)
            done.add(n)
        # getter
        u.fn(ED, f, within=W, display='ErrorDetails::' + f, ensures=[Clause('G1_the_detail_of_this_kind_if_any', 'match r { Some(x) => self.%s == Some(*x), None => self.%s is None }' % (f, f))])
        done.add(f)
        if k in rows:
            fld, sub, fs = rows[k]
            single = {'QuotaFailure': 'quota_failure_violation', 'PreconditionFailure': 'precondition_failure_violation', 'BadRequest': 'bad_request_violation', 'Help': 'help_link'}[k]
            n = 'with_' + single
            ps = params_of(ED, n, W)
            row = ' && '.join('v.%s@[0].%s == %s' % (fld, x, p) for x, p in zip(fs, ps))
            u.fn(ED, n, within=W, sig_edits=sp, display='ErrorDetails::' + n,
                 ensures=[Clause('W2_only_this_detail_is_present_with_exactly_the_one_row_given',
                                 'r.%s matches Some(v) && v.%s@.len() == 1 && %s && %s' % (f, fld, row, ' && '.join('r.%s is None' % x for x in flds if x != f)))])
            done.add(n)
            n = 'add_' + single
            ps = params_of(ED, n, W)
            rowl = ' && '.join('v.%s@.last().%s == %s' % (fld, x, p) for x, p in zip(fs, ps))
            before = '(match old(self).%s { Some(o) => o.%s@, None => Seq::empty() })' % (f, fld)
            u.fn(ED, n, within=W, sig_edits=sp, display='ErrorDetails::' + n,
                 ensures=[Clause('A1_the_row_goes_after_the_rows_already_there_the_other_details_stay',
                                 '(*r).%s matches Some(v) && v.%s@.len() == %s.len() + 1 && v.%s@.take(%s.len() as int) == %s && %s && %s && *final(r) == *final(self)' % (
                                     f, fld, before, fld, before, before, rowl, others('old(self)', f, '(*r)')))])
            done.add(n)
            plural = {'QuotaFailure': 'has_quota_failure_violations', 'PreconditionFailure': 'has_precondition_failure_violations', 'BadRequest': 'has_bad_request_violations', 'Help': 'has_help_links'}[k]
            u.fn(ED, plural, within=W, display='ErrorDetails::' + plural,
                 ensures=[Clause('H1_true_exactly_when_the_detail_is_there_with_at_least_one_row', 'r == (self.%s matches Some(v) && v.%s@.len() > 0)' % (f, fld))])
            done.add(plural)
    u.close('}')
    left = [n for n in names if n not in done]
    if left:
        raise Infra('ErrorDetails builder functions without a contract: %s' % left)
    return u
