"""Verus lane: extract real function text from /repo, apply the closed rewrite catalogue,
splice contracts, run Verus on the generated single file and map diagnostics to named
obligations.  See DESIGN.md section 2.1.  Nothing in here knows about a particular unit."""
import hashlib
import json
import os
import re
import subprocess
import time

REPO = os.environ.get('VERIF_REPO', '/repo')
VX = os.path.dirname(os.path.abspath(__file__))
PRELUDE_DIR = os.path.join(VX, 'prelude')
ENABLED_FEATURES = {'gzip', 'deflate', 'zstd', 'server', 'channel', 'router', 'prost', 'codegen',
                    'transport', 'tls-ring', 'tls-aws-lc', '_tls-any'}


import json
import threading
TLS = threading.local()   # TLS.isolate = (fn display name, clause label or '__safety__'): clause isolation (DESIGN 2.1)


def read_src(file):
    """source text of a /repo file (self-test mutations substitute text in memory, never on disk)"""
    ov = getattr(TLS, 'override', None)
    if ov and file in ov:
        return ov[file]
    return open(os.path.join(REPO, file)).read()


class Infra(Exception):
    """Lost anchor / missing item / unsupported construct: undecided (exit 2), never an alarm."""


# --------------------------------------------------------------------------------------
# source scanning

_RAW_RX = re.compile(r'b?r(#*)"')
_MASK_CACHE = {}


def code_mask(src):
    """mask[i] is True when src[i] is code (not inside a comment, string or char literal)."""
    m = _MASK_CACHE.get(src)
    if m is None:
        m = _code_mask(src)
        if len(_MASK_CACHE) > 64:
            _MASK_CACHE.clear()
        _MASK_CACHE[src] = m
    return m


def _code_mask(src):
    n = len(src)
    code = [True] * n
    i = 0
    while i < n:
        c = src[i]
        if src.startswith('//', i):
            j = src.find('\n', i)
            j = n if j < 0 else j
            for k in range(i, j):
                code[k] = False
            i = j
            continue
        if src.startswith('/*', i):
            depth = 1
            j = i + 2
            while j < n and depth:
                if src.startswith('/*', j):
                    depth += 1
                    j += 2
                elif src.startswith('*/', j):
                    depth -= 1
                    j += 2
                else:
                    j += 1
            for k in range(i, j):
                code[k] = False
            i = j
            continue
        # raw strings r"..", r#".."#, br".."
        m = _RAW_RX.match(src, i) if c in 'rb' else None
        if m and (i == 0 or not (src[i - 1].isalnum() or src[i - 1] == '_')):
            close = '"' + m.group(1)
            j = src.find(close, m.end())
            j = n if j < 0 else j + len(close)
            for k in range(i, j):
                code[k] = False
            i = j
            continue
        if c == '"':
            j = i + 1
            while j < n and src[j] != '"':
                if src[j] == '\\':
                    j += 1
                j += 1
            for k in range(i, min(j + 1, n)):
                code[k] = False
            i = j + 1
            continue
        if c == "'":
            # char literal or lifetime
            if i + 2 < n and src[i + 1] == '\\':
                j = src.find("'", i + 2)
                if j > 0 and j - i <= 12:
                    for k in range(i, j + 1):
                        code[k] = False
                    i = j + 1
                    continue
            elif i + 2 < n and src[i + 2] == "'":
                for k in range(i, i + 3):
                    code[k] = False
                i += 3
                continue
        i += 1
    return code


def match_brace(src, code, open_pos):
    """index just after the brace matching src[open_pos] (one of ({[ )."""
    pairs = {'{': '}', '(': ')', '[': ']'}
    o = src[open_pos]
    c = pairs[o]
    d = 0
    i = open_pos
    n = len(src)
    while i < n:
        if code[i]:
            if src[i] == o:
                d += 1
            elif src[i] == c:
                d -= 1
                if d == 0:
                    return i + 1
        i += 1
    raise Infra('unbalanced %s at %d' % (o, open_pos))


def norm_ws(s):
    return re.sub(r'\s+', ' ', s).strip()


def impl_blocks(src, code):
    """[(header_text_normalised, body_open, body_end)] for every `impl ...{` / `trait ...{` / `mod x {`."""
    out = []
    for m in re.finditer(r'\b(impl|trait|mod)\b', src):
        if not code[m.start()]:
            continue
        # must be at item position: preceded by start, whitespace, `pub`, `unsafe`, or `}`
        ls = src.rfind('\n', 0, m.start()) + 1
        pre = src[ls:m.start()].strip()
        if pre not in ('', 'pub', 'unsafe', 'pub(crate)', 'pub unsafe', 'pub(super)'):
            continue
        i = m.end()
        n = len(src)
        while i < n and not (code[i] and src[i] in '{;'):
            i += 1
        if i >= n or src[i] == ';':
            continue
        out.append((norm_ws(src[m.start():i]), i, match_brace(src, code, i)))
    return out


def find_fn(src, name, nth=0, within=None):
    """Locate `fn name`.  `within`: normalised substring of the enclosing impl/trait/mod header.
    Returns dict(item_start, sig_start, body_open, body_end)."""
    code = code_mask(src)
    lo, hi = 0, len(src)
    if within is not None:
        w = norm_ws(within)
        if w.endswith('$'):   # exact header (`impl Help$` is not `impl HelpLink`)
            blocks = [b for b in impl_blocks(src, code) if b[0] == w[:-1].strip()]
        else:
            blocks = [b for b in impl_blocks(src, code) if w in b[0]]
        if not blocks:
            raise Infra('impl block %r not found' % within)
        # choose the block that contains the function
        cands = []
        for hdr, bo, be in blocks:
            for m in re.finditer(r'\bfn\s+' + re.escape(name) + r'\b', src[bo:be]):
                if code[bo + m.start()]:
                    cands.append((bo + m.start(), bo, be))
        if len(cands) <= nth:
            raise Infra('fn %s not found within %r' % (name, within))
        pos = cands[nth][0]
    else:
        ms = [m for m in re.finditer(r'\bfn\s+' + re.escape(name) + r'\b', src) if code[m.start()]]
        if len(ms) <= nth:
            raise Infra('fn %s (#%d) not found' % (name, nth))
        pos = ms[nth].start()
    ls = src.rfind('\n', 0, pos) + 1
    # walk upwards over attribute / doc-comment lines
    item_start = ls
    while True:
        pl = src.rfind('\n', 0, item_start - 1) + 1 if item_start > 0 else 0
        line = src[pl:item_start].strip()
        if item_start > 0 and (line.startswith('#[') or line.startswith('///')):
            item_start = pl
        else:
            break
    i = pos
    n = len(src)
    depth = 0
    while True:
        if i >= n:
            raise Infra('fn %s has no body' % name)
        if code[i]:
            ch = src[i]
            if ch in '([':
                depth += 1
            elif ch in ')]':
                depth -= 1
            elif ch == '{' and depth == 0:
                break
            elif ch == ';' and depth == 0:
                raise Infra('fn %s has no body' % name)
        i += 1
    return dict(item_start=item_start, sig_start=ls, body_open=i, body_end=match_brace(src, code, i))


def find_item(src, kind, name):
    """struct / enum / const / static / type / trait item: (item_start, start, end)."""
    code = code_mask(src)
    for m in re.finditer(r'\b' + kind + r'\s+' + re.escape(name) + r'\b', src):
        if not code[m.start()]:
            continue
        ls = src.rfind('\n', 0, m.start()) + 1
        if src[ls:m.start()].strip() not in ('', 'pub', 'pub(crate)', 'pub(super)'):
            continue
        i = m.end()
        depth = 0
        while True:
            if code[i]:
                ch = src[i]
                if ch in '([<' and ch != '<':
                    depth += 1
                elif ch in ')]':
                    depth -= 1
                elif ch == '{' and depth == 0:
                    end = match_brace(src, code, i)
                    break
                elif ch == ';' and depth == 0:
                    end = i + 1
                    break
            i += 1
        item_start = ls
        while True:
            pl = src.rfind('\n', 0, item_start - 1) + 1 if item_start > 0 else 0
            line = src[pl:item_start].strip()
            if item_start > 0 and (line.startswith('#[') or line.startswith('///')):
                item_start = pl
            else:
                break
        return item_start, ls, end
    raise Infra('%s %s not found' % (kind, name))


# --------------------------------------------------------------------------------------
# logged, reversible edits

class Text:
    """A piece of source text with a log of edits; undo() must give back the original."""

    def __init__(self, text, origin):
        self.orig = text
        self.t = text
        self.origin = origin
        self.log = []
        self.lost = []

    def edit(self, rule, start, end, new, note=''):
        old = self.t[start:end]
        self.t = self.t[:start] + new + self.t[end:]
        self.log.append(dict(rule=rule, at=start, old=old, new=new, note=note))

    def undo(self):
        t = self.t
        for e in reversed(self.log):
            a = e['at']
            assert t[a:a + len(e['new'])] == e['new'], 'edit log out of sync'
            t = t[:a] + e['old'] + t[a + len(e['new']):]
        return t

    def check_reversible(self):
        if self.undo() != self.orig:
            raise Infra('rewrite log does not reproduce the source slice: ' + self.origin)

    # ---- regex driven rewrites over code (not comments/strings) ----
    def sub_code(self, rule, pattern, repl, note=''):
        count = 0
        pos = 0
        rx = re.compile(pattern)
        while True:
            code = code_mask(self.t)
            m = None
            for mm in rx.finditer(self.t, pos):
                if code[mm.start()]:
                    m = mm
                    break
            if not m:
                break
            new = m.expand(repl) if isinstance(repl, str) else repl(m)
            self.edit(rule, m.start(), m.end(), new, note)
            pos = m.start() + len(new)
            count += 1
        return count

    # ---- anchors ----
    def find_code(self, needle, nth=0):
        code = code_mask(self.t)
        pos = -1
        k = -1
        while True:
            pos = self.t.find(needle, pos + 1)
            if pos < 0:
                return -1
            if code[pos]:
                k += 1
                if k == nth:
                    return pos

    def insert_before_line_of(self, rule, needle, text, nth=0, note=''):
        p = self.find_code(needle, nth)
        if p < 0:
            self.lost.append('anchor %r' % needle)
            return False
        ls = self.t.rfind('\n', 0, p) + 1
        indent = re.match(r'\s*', self.t[ls:]).group(0).replace('\n', '')
        self.edit(rule, ls, ls, indent + text + '\n', note)
        return True

    def insert_after_line_of(self, rule, needle, text, nth=0, note=''):
        p = self.find_code(needle, nth)
        if p < 0:
            self.lost.append('anchor %r' % needle)
            return False
        le = self.t.find('\n', p)
        le = len(self.t) if le < 0 else le + 1
        ls = self.t.rfind('\n', 0, p) + 1
        indent = re.match(r'[ \t]*', self.t[ls:]).group(0)
        self.edit(rule, le, le, indent + text + '\n', note)
        return True

    def loops(self):
        """positions of loop keywords in order, with the index of the `{` opening each body."""
        code = code_mask(self.t)
        out = []
        for m in re.finditer(r'\b(loop|while|for)\b', self.t):
            if not code[m.start()]:
                continue
            if m.group(1) == 'for':
                # `for<'a>` bounds and `impl X for Y` are not loops
                rest = self.t[m.end():m.end() + 1]
                if rest == '<':
                    continue
            i = m.end()
            depth = 0
            while i < len(self.t):
                if code[i]:
                    ch = self.t[i]
                    if ch in '([':
                        depth += 1
                    elif ch in ')]':
                        depth -= 1
                    elif ch == '{' and depth == 0:
                        break
                i += 1
            out.append((m.start(), i))
        return out

    def loop_spec(self, k, spec, note='', iter_name=None):
        ls = self.loops()
        if k >= len(ls):
            self.lost.append('loop #%d' % k)
            return False
        kw, brace = ls[k]
        self.edit('S-loop', brace, brace, '\n' + spec + '\n', note)
        if iter_name:
            # R14: `for PAT in EXPR` becomes `for PAT in NAME: EXPR` (Verus needs a name for the ghost iterator)
            m = re.compile(r'\bin\s+').search(self.t, kw)
            if m and m.end() < brace:
                self.edit('R14', m.end(), m.end(), iter_name + ': ')
        return True

    def at_body_start(self, text, note=''):
        p = self.t.find('{')
        self.edit('S-hint', p + 1, p + 1, '\n' + text, note)


# --------------------------------------------------------------------------------------
# rewrite catalogue R1..R11 (DESIGN.md 2.1)

KEYWORDS = {'match', 'if', 'return', 'let', 'in', 'while', 'else', 'loop', 'for', 'break', 'continue',
            'mut', 'ref', 'move', 'as', 'unsafe', 'await'}


def r1_name_result(sig: Text):
    """-> T   becomes   -> (r: T)"""
    code = code_mask(sig.t)
    depth = 0
    angle = 0
    i = 0
    arrow = -1
    # the fn-level arrow is the one at paren depth 0 after the parameter list
    while i < len(sig.t):
        if code[i]:
            ch = sig.t[i]
            if ch in '([':
                depth += 1
            elif ch in ')]':
                depth -= 1
            elif sig.t.startswith('->', i):
                if depth == 0 and angle == 0:
                    arrow = i
                    break
                i += 1   # an arrow inside a generic bound (`F: FnOnce() -> T`): skip its `>`
            elif ch == '<':
                angle += 1
            elif ch == '>':
                angle -= 1
        i += 1
    if arrow < 0:
        return False
    j = arrow + 2
    # type ends at top-level `where` or end of sig
    m = re.search(r'\bwhere\b', sig.t[j:])
    end = j + m.start() if m else len(sig.t)
    ty = sig.t[j:end].strip()
    tail_ws = sig.t[j:end][len(sig.t[j:end].rstrip()):]
    sig.edit('R1', j, end, ' (r: ' + ty + ')' + (tail_ws if tail_ws else ' '))
    return True


def r6_pin_receiver(sig: Text):
    sig.sub_code('R6', r'\bmut\s+self\s*:\s*(?:std::pin::)?Pin<\s*&mut\s+Self\s*>', '&mut self')
    sig.sub_code('R6', r'\bself\s*:\s*(?:std::pin::)?Pin<\s*&mut\s+Self\s*>', '&mut self')
    sig.sub_code('R6', r"(?:std::task::)?Context<'_>", 'Context')


def r4_closure_underscore(body: Text):
    body.sub_code('R4', r'\|_\|', '|_e|')


def r3_ctor_as_fn(body: Text):
    body.sub_code('R3', r'\.(map|map_err|and_then)\(\s*(Err|Ok|Some|Bytes::from)\s*\)', r'.\1(|e| \2(e))')


def _cfg_unit_end(t, code, pos):
    """end of the syntactic unit (statement / item / parameter / field / argument / match arm) that starts at pos"""
    n = len(t)
    while pos < n and (t[pos].isspace() or not code[pos]):
        pos += 1
    head = t[pos:pos + 12]
    def block_end(p):
        depth = 0
        while p < n:
            if code[p]:
                if t[p] in '([':
                    depth += 1
                elif t[p] in ')]':
                    depth -= 1
                elif t[p] == '{' and depth == 0:
                    return match_brace(t, code, p)
                elif t[p] == ';' and depth == 0:
                    return p + 1
            p += 1
        return n
    if re.match(r'(if|match|for|while|loop|unsafe)\b', head) or head.startswith('{'):
        e = block_end(pos)
        while True:      # else chains
            m = re.match(r'\s*else\b', t[e:])
            if not m:
                return e
            e = block_end(e + m.end())
    if re.match(r'(let)\b', head):
        depth = 0
        p = pos
        while p < n:
            if code[p]:
                if t[p] in '([{':
                    depth += 1
                elif t[p] in ')]}':
                    depth -= 1
                elif t[p] == ';' and depth == 0:
                    return p + 1
            p += 1
        return n
    if re.match(r'(pub\b|fn\b|impl\b|struct\b|enum\b|mod\b|use\b|const\b|static\b|type\b)', head):
        return block_end(pos)
    # parameter / field / argument / match arm: up to and including the next top-level comma, or up to the closing delimiter
    depth = 0
    p = pos
    while p < n:
        if code[p]:
            if t[p] in '([{':
                depth += 1
            elif t[p] in ')]}':
                if depth == 0:
                    return p
                depth -= 1
            elif t[p] == ',' and depth == 0:
                return p + 1
        p += 1
    return n


def r8_cfg(body: Text):
    """R8: `#[cfg(feature = "F")]` (also `not(..)`, `any(..)`) is resolved against the fixed feature configuration: an attribute
    that holds is dropped, one that does not hold is dropped together with the unit it guards"""
    while True:
        t = body.t
        code = code_mask(t)
        m = next((m for m in re.finditer(r'#\[cfg\((not\()?(any\()?((?:\s*feature = "[\w-]+",?\s*)+)\)?\)?\)\]\s*', t) if code[m.start()]), None)
        if not m:
            return
        feats = re.findall(r'feature = "([\w-]+)"', m.group(3))
        holds = any(f in ENABLED_FEATURES for f in feats)
        if m.group(1):
            holds = not holds
        if holds:
            body.edit('R8', m.start(), m.end(), '')
        else:
            end = _cfg_unit_end(t, code, m.end())
            body.edit('R8', m.start(), end, '', 'configured out: %s' % m.group(0).strip())


def r8_attrs_docs(text: Text):
    text.sub_code('R8', r'#\[(?:derive|allow|inline|doc|non_exhaustive|must_use|pin_project|pin|deprecated|default|prost)[^\]]*\]\s*', '')
    # doc comments are not code per mask: remove them by line
    while True:
        m = re.search(r'^[ \t]*///[^\n]*\n', text.t, re.M)
        if not m:
            break
        text.edit('R8', m.start(), m.end(), '')


def r2_try_in_poll(body: Text, macro='vtry'):
    """EXPR?  ->  vtry!(EXPR)  for every `?` in code."""
    n = 0
    while True:
        code = code_mask(body.t)
        q = -1
        for i, ch in enumerate(body.t):
            if ch == '?' and code[i]:
                q = i
                break
        if q < 0:
            break
        start = _postfix_chain_start(body.t, code, q)
        expr = body.t[start:q]
        body.edit('R2', start, q + 1, macro + '!(' + expr + ')')
        n += 1
    return n


def _postfix_chain_start(t, code, q):
    i = q
    while True:
        j = i - 1
        while j >= 0 and (t[j].isspace() or not code[j]) and not (not code[j] and t[j] == '"'):
            j -= 1
        if j < 0:
            return i
        ch = t[j]
        if not code[j]:
            # string literal end: skip back over it
            k = j
            while k >= 0 and not code[k]:
                k -= 1
            i = k + 1
            continue
        if ch in ')]}':
            # balanced group
            opener = {')': '(', ']': '[', '}': '{'}[ch]
            d = 0
            k = j
            while k >= 0:
                if code[k]:
                    if t[k] == ch:
                        d += 1
                    elif t[k] == opener:
                        d -= 1
                        if d == 0:
                            break
                k -= 1
            if ch == '}':
                # a block expression `{..}?` is not expected
                return i
            i = k
            continue
        if ch.isalnum() or ch == '_':
            k = j
            while k >= 0 and (t[k].isalnum() or t[k] == '_'):
                k -= 1
            word = t[k + 1:j + 1]
            if word in KEYWORDS:
                return i
            i = k + 1
            continue
        if ch == '.':
            i = j
            continue
        if ch == ':' and j > 0 and t[j - 1] == ':':
            i = j - 1
            continue
        if ch == '!':
            i = j
            continue
        if ch == '>' and False:
            pass
        return i


def r10_index_mut_from(body: Text, types=('buf',)):
    body.sub_code('R10', r'&mut\s+(\w+)\[(\w+)\.\.\]', r'\1.verif_index_mut_from(\2)')


def r15_bytes_match(body: Text, strs=False):
    """R15: `match EXPR { b"lit" [if G] => A, .., name => D }` (byte-string literal patterns crash this Verus build, slice
    patterns are unsupported) becomes the first-match if-chain
    `{ let verif_scrutinee = EXPR; if verif_bytes_eq(verif_scrutinee, "lit") [&& (G)] { A } else if .. else { let name = verif_scrutinee; D } }`
    where verif_bytes_eq(a, "lit") is `a == b"lit"` (ASCII literals only)."""
    n = 0
    while True:
        t = body.t
        code = code_mask(t)
        target = None
        for m in re.finditer(r'\bmatch\b', t):
            if not code[m.start()]:
                continue
            # scrutinee up to the `{` at depth 0
            i = m.end()
            depth = 0
            while i < len(t):
                if code[i]:
                    if t[i] in '([':
                        depth += 1
                    elif t[i] in ')]':
                        depth -= 1
                    elif t[i] == '{' and depth == 0:
                        break
                i += 1
            end = match_brace(t, code, i)
            inner = t[i + 1:end - 1]
            if re.search(r'^\s*b"', inner) or (strs and re.search(r'^\s*(//[^\n]*\n\s*)*"', inner)):
                target = (m.start(), m.end(), i, end)
                break
        if not target:
            return n
        ms, me, bo, be = target
        scrut = t[me:bo].strip()
        # split arms
        arms = []
        i = bo + 1
        while True:
            while i < be - 1 and t[i].isspace():
                i += 1
            if i >= be - 1:
                break
            # pattern (+guard) up to `=>`
            j = i
            depth = 0
            while not (code[j] and depth == 0 and t.startswith('=>', j)):
                if code[j]:
                    if t[j] in '([{':
                        depth += 1
                    elif t[j] in ')]}':
                        depth -= 1
                j += 1
            head = t[i:j].strip()
            k = j + 2
            while t[k].isspace():
                k += 1
            if t[k] == '{':
                e = match_brace(t, code, k)
                arm_body = t[k:e]
                k = e
                while k < be - 1 and t[k].isspace():
                    k += 1
                if t[k] == ',':
                    k += 1
            else:
                e = k
                depth = 0
                while e < be - 1 and not (code[e] and depth == 0 and t[e] == ','):
                    if code[e]:
                        if t[e] in '([{':
                            depth += 1
                        elif t[e] in ')]}':
                            depth -= 1
                    e += 1
                arm_body = '{ ' + t[k:e].strip() + ' }'
                k = e + 1
            arms.append((head, arm_body))
            i = k
        out = ['{ let verif_scrutinee = %s;' % scrut]
        first = True
        for head, arm_body in arms:
            head = re.sub(r'^(\s*//[^\n]*\n)+', '', head).strip()
            mg = re.match(r'(b?"(?:[^"\\]|\\.)*")\s*(?:if\s+(.*))?$', head, re.S)
            if mg:
                is_bytes = mg.group(1).startswith('b')
                lit = mg.group(1)[1:] if is_bytes else mg.group(1)
                if '\\' in lit or not all(32 <= ord(ch) < 127 for ch in lit):
                    raise Infra('R15: byte-string literal with escapes / non-ASCII: %s' % lit)
                # b"lit" is compared through the str literal "lit" (same ASCII bytes): Verus knows string literals, not byte strings
                cond = ('verif_bytes_eq(verif_scrutinee, %s)' if is_bytes else 'verif_str_eq(verif_scrutinee, %s)') % lit
                if mg.group(2):
                    cond += ' && (%s)' % mg.group(2).strip()
                out.append(('if ' if first else 'else if ') + cond + ' ' + arm_body)
                first = False
            elif re.match(r'^[a-z_]\w*$', head):
                bind = '' if head == '_' else 'let %s = verif_scrutinee; ' % head
                out.append('else { ' + bind + arm_body + ' }')
            else:
                raise Infra('R15: unsupported arm pattern %r' % head)
        out.append('}')
        body.edit('R15', ms, be, '\n'.join(out), 'match on byte-string literals')
        n += 1


def _split_arms(t, code, bo, be):
    """arms of the match whose braces are t[bo] .. t[be-1]: [(start, end, head, body_text)]"""
    arms = []
    i = bo + 1
    while True:
        while i < be - 1 and (t[i].isspace() or not code[i]):
            i += 1
        if i >= be - 1:
            break
        j = i
        depth = 0
        while not (code[j] and depth == 0 and t.startswith('=>', j)):
            if code[j]:
                if t[j] in '([{':
                    depth += 1
                elif t[j] in ')]}':
                    depth -= 1
            j += 1
        head = t[i:j].strip()
        k = j + 2
        while t[k].isspace():
            k += 1
        if t[k] == '{':
            e = match_brace(t, code, k)
            arm_body = t[k:e]
            k = e
            while k < be - 1 and t[k].isspace():
                k += 1
            if t[k] == ',':
                k += 1
        else:
            e = k
            depth = 0
            while e < be - 1 and not (code[e] and depth == 0 and t[e] == ','):
                if code[e]:
                    if t[e] in '([{':
                        depth += 1
                    elif t[e] in ')]}':
                        depth -= 1
                e += 1
            arm_body = '{ ' + t[k:e].strip() + ' }'
            k = min(e + 1, be - 1)
        arms.append((i, k, head, arm_body))
        i = k
    return arms


def r19_merge_guard_arms(body: Text):
    """R19: consecutive arms `P(x) if G1 => A1, P(x) if G2 => A2, P(_) => C` (same pattern, the last one unguarded with the
    binding replaced by `_`) become the single arm `P(x) => { if G1 A1 else if G2 A2 else C }`.  Same first-match semantics;
    needed because this Verus build loses mutable-reference resolution on arms that have guards."""
    n = 0
    while True:
        t = body.t
        code = code_mask(t)
        done = True
        for m in re.finditer(r'\bmatch\b', t):
            if not code[m.start()]:
                continue
            i = m.end()
            depth = 0
            while i < len(t):
                if code[i]:
                    if t[i] in '([':
                        depth += 1
                    elif t[i] in ')]':
                        depth -= 1
                    elif t[i] == '{' and depth == 0:
                        break
                i += 1
            be = match_brace(t, code, i)
            arms = _split_arms(t, code, i, be)
            for a in range(len(arms)):
                mg = re.match(r'^(.*?\S)\s+if\s+(.*)$', arms[a][2], re.S)
                if not mg:
                    continue
                pat = mg.group(1)
                ids = [x for x in re.findall(r'\b[a-z_][a-z0-9_]*\b', pat)]
                if len(ids) != 1:
                    continue
                group = [(mg.group(2), arms[a][3])]
                b = a + 1
                while b < len(arms):
                    mg2 = re.match(r'^(.*?\S)\s+if\s+(.*)$', arms[b][2], re.S)
                    if mg2 and norm_ws(mg2.group(1)) == norm_ws(pat):
                        group.append((mg2.group(2), arms[b][3]))
                        b += 1
                    else:
                        break
                if b < len(arms) and norm_ws(arms[b][2]) == norm_ws(re.sub(r'\b%s\b' % ids[0], '_', pat)):
                    chain = ' else '.join('if %s %s' % (g.strip(), ab) for g, ab in group) + ' else ' + arms[b][3]
                    body.edit('R19', arms[a][0], arms[b][1], '%s => { %s }\n' % (pat, chain), 'guard arms merged')
                    n += 1
                    done = False
                    break
            if not done:
                break
        if done:
            return n


def r21_ref_const_field_arms(body: Text):
    """R21: an arm `V { f: &CONST, rest.. } => A` directly followed by the catch-all arm of the same variant `V { .. } => B`
    becomes `V { f: verif_f, rest.. } => { if *verif_f == CONST { A } else { B } }` (same first-match semantics: a constant
    pattern behind a reference is an equality test; this Verus build has no ref patterns)."""
    n = 0
    while True:
        t = body.t
        code = code_mask(t)
        done = True
        for m in re.finditer(r'\bmatch\b', t):
            if not code[m.start()]:
                continue
            i = m.end()
            depth = 0
            while i < len(t):
                if code[i]:
                    if t[i] in '([':
                        depth += 1
                    elif t[i] in ')]':
                        depth -= 1
                    elif t[i] == '{' and depth == 0:
                        break
                i += 1
            be = match_brace(t, code, i)
            arms = _split_arms(t, code, i, be)
            for a in range(len(arms) - 1):
                mg = re.match(r'^([\w:]+)\s*\{(.*?)\b(\w+):\s*&([A-Z]\w*(?:::\w+)+)\s*,(.*)\}$', arms[a][2], re.S)
                if not mg:
                    continue
                variant, pre, field, const, post = mg.groups()
                nxt = re.match(r'^([\w:]+)\s*\{\s*\.\.\s*\}$', arms[a + 1][2])
                if not nxt or nxt.group(1) != variant:
                    continue
                pat = '%s {%s%s: verif_%s,%s}' % (variant, pre, field, field, post)
                body.edit('R21', arms[a][0], arms[a + 1][1], '%s => { if *verif_%s == %s %s else %s }\n' % (pat, field, const, arms[a][3], arms[a + 1][3]),
                          'reference-to-constant pattern')
                n += 1
                done = False
                break
            if not done:
                break
        if done:
            if n == 0:
                body.lost.append('R21: no `field: &CONST` arm followed by the catch-all arm of the same variant')
            return n


def r27_str_const_match(body: Text):
    """R27: `match E.as_str() { P1::C => A1, .., _ => D }` whose patterns are paths to `&str` constants becomes
    `if verif_str_eq(E.as_str(), P1::C) A1 else if .. else D` (a constant pattern is an equality test and arms are tried in
    order; this Verus build derives `scrutinee == constant` from a matching arm but nothing from a non-matching one)."""
    n = 0
    while True:
        t = body.t
        code = code_mask(t)
        hit = None
        for m in re.finditer(r'\bmatch\s+([\w\.]+\.as_str\(\))\s*\{', t):
            if not code[m.start()]:
                continue
            bo = m.end() - 1
            be = match_brace(t, code, bo)
            arms = _split_arms(t, code, bo, be)
            if len(arms) >= 2 and arms[-1][2] == '_' and all(re.match(r'^[A-Za-z_]\w*(::\w+)+$', a[2]) for a in arms[:-1]):
                hit = (m, be, arms)
                break
        if not hit:
            if n == 0:
                body.lost.append('R27: no match over `.as_str()` with constant-path arms and a catch-all')
            return n
        m, be, arms = hit
        scrut = m.group(1)
        chain = ' else '.join('if verif_str_eq(%s, %s) %s' % (scrut, a[2], a[3]) for a in arms[:-1]) + ' else ' + arms[-1][3]
        body.edit('R27', m.start(), be, chain, 'string-constant match')
        n += 1


def r23_continue_guard(body: Text):
    """R23: `if C { continue; } REST` (REST = the remainder of the enclosing loop body) becomes `if !(C) { REST }`:
    this Verus build has no `continue` in for-loops.  Only applied when the `if` sits directly in the loop body block."""
    n = 0
    while True:
        t = body.t
        code = code_mask(t)
        # matched on the text with comments blanked (a comment inside the block must not hide the pattern)
        tc = ''.join(ch if (code[k] or ch == '\n') else ' ' for k, ch in enumerate(t))
        m = next((m for m in re.finditer(r'\bif\s+([^{};]+?)\s*\{\s*continue;\s*\}', tc) if code[m.start()]), None)
        if not m:
            return n
        # innermost block containing the `if`
        depth = 0
        i = m.start() - 1
        while i >= 0:
            if code[i]:
                if t[i] == '}':
                    depth += 1
                elif t[i] == '{':
                    if depth == 0:
                        break
                    depth -= 1
            i -= 1
        if i < 0:
            body.lost.append('R23: enclosing block of `continue` not found')
            return n
        end = match_brace(t, code, i) - 1          # position of the closing brace of the enclosing block
        head = t[max(0, i - 200):i]
        if not re.search(r'\bfor\b[^{};]*$', head):
            body.lost.append('R23: `if .. { continue; }` is not directly inside a for-loop body')
            return n
        body.edit('R23', end, end, '} ', 'continue guard: close')
        body.edit('R23', m.start(), m.end(), 'if !(%s) {' % t[m.start(1):m.end(1)].strip(), 'continue guard')
        n += 1


def r20_let_intro(body: Text, needle, tmp):
    """R20: A-normal form for one sub-expression: the (single-line) expression statement containing `needle` becomes
    `{ let tmp = needle; <statement with tmp> }` so that a proof hint can refer to the intermediate value.  Evaluation order
    is unchanged when `needle` is the first effectful sub-expression of that statement (checked by the unit author)."""
    p = body.find_code(needle)
    if p < 0:
        body.lost.append('R20 anchor %r' % needle)
        return False
    ls = body.t.rfind('\n', 0, p) + 1
    le = body.t.find('\n', p)
    line = body.t[ls:le]
    indent = re.match(r'\s*', line).group(0)
    new = indent + '{ let ' + tmp + ' = ' + needle + ';\n' + indent + line.strip().replace(needle, tmp, 1) + ' }'
    body.edit('R20', ls, le, new, 'let-introduction')
    return True


def r5_mut_self(sig: Text, body: Text):
    m = re.search(r'\(\s*mut\s+self\s*[,)]', sig.t)
    if not m:
        return False
    sig.sub_code('R5', r'\bmut\s+self\b', 'self')
    body.sub_code('R5', r'\bself\b', 'this')
    p = body.t.find('{')
    body.edit('R5', p + 1, p + 1, '\n        let mut this = self;')
    return True


def r5_mut_params_async(sig: Text, body: Text):
    """R5 for `async fn`: a by-value `mut x: T` parameter becomes `x: T` + `let mut x = x;` (this Verus loses the `mut` of
    parameters of async fns)"""
    if not re.search(r'\basync\s+fn\b', sig.t):
        return False
    names = re.findall(r'[(,]\s*mut\s+([a-z_]\w*)\s*:', sig.t)
    names = [n for n in names if n != 'self']
    if not names:
        return False
    for n in names:
        sig.sub_code('R5', r'\bmut\s+%s\s*:' % n, '%s:' % n)
    p = body.t.find('{')
    body.edit('R5', p + 1, p + 1, ''.join('\n        let mut %s = %s;' % (n, n) for n in names))
    return True


# --------------------------------------------------------------------------------------
# unit assembly

class Clause:
    def __init__(self, label, text, props=None):
        self.label = label
        self.text = text.strip().rstrip(',')
        self.props = props


class Unit:
    def __init__(self, name, props, doc=''):
        self.name = name
        self.props = list(props)
        self.doc = doc
        self.lines = []
        self.labels = []          # (line_from, line_to, obligation name, kind)
        self.obligations = {}     # name -> dict(props, kind, fn, text)
        self.fn_ranges = []       # (line_from, line_to, fn display name, safety obligation)
        self.functions = []       # evidence: functions under contract
        self.rewrites = []
        self.lost = []
        self.notes = []
        self.closure_sigs = {}
        self.loop_sigs = {}
        self.trusted = []         # A- ids
        self.vacuity_fns = []
        self.expected_fail = set()
        self.not_covered = []
        self.prelude_files = []
        self.prelude_ranges = []
        self.raw_ranges = []

    # ---- emit helpers ----
    def _emit(self, text):
        start = len(self.lines) + 1
        self.lines.extend(text.split('\n'))
        return start, len(self.lines)

    def prelude(self, *files, subst=None):
        """subst: {file: [(old, new), ..]} - a unit may state one of the assumed contracts differently (the replaced text must be
        there, and the new text carries its own A- id)"""
        for f in files:
            p = os.path.join(PRELUDE_DIR, f)
            txt = open(p).read()
            for old, new in (subst or {}).get(f, []):
                if old not in txt:
                    raise Infra('prelude %s: text to restate not found: %r' % (f, old[:60]))
                txt = txt.replace(old, new)
            self.prelude_files.append(f)
            a, b = self._emit('// ---- prelude: %s (assumed contracts) ----\n' % f + txt.rstrip('\n'))
            self.prelude_ranges.append((a, b))
            for m in re.finditer(r'//\s*(A-[\w-]+)\s*:\s*(.*)', txt):
                self.trusted.append('%s: %s' % (m.group(1), m.group(2).strip()))

    def raw(self, text, name=None, props=None):
        """spec functions, lemmas, shim types particular to this unit.  Every `proof fn` in it
        is one obligation."""
        a, b = self._emit(text.strip('\n'))
        self.raw_ranges.append((a, b, bool(re.search(r'//\s*A-[\w-]+\s*:', text))))
        # name the proof fns
        cur = None
        for ln in range(a, b + 1):
            line = self.lines[ln - 1]
            m = re.search(r'\bproof\s+fn\s+(\w+)', line)
            if m:
                rest = '\n'.join(self.lines[ln - 1:b])[m.end():]
                if re.search(r'[;{]', rest) and re.search(r'[;{]', rest).group(0) == ';':
                    continue   # a bodyless declaration (trait member): nothing to prove here
                cur = m.group(1)
                ob = '%s::lemma::%s' % (self.name, cur)
                self.obligations[ob] = dict(props=props or self.props, kind='lemma', fn=cur, text=line.strip())
                self._lemma_open = (ln, ob)
                # range: until matching close brace; approximate by scanning braces
                depth = 0
                started = False
                end = ln
                for l2 in range(ln, b + 1):
                    s = self.lines[l2 - 1]
                    for ch in s:
                        if ch == '{':
                            depth += 1
                            started = True
                        elif ch == '}':
                            depth -= 1
                    end = l2
                    if started and depth <= 0:
                        break
                self.fn_ranges.append((ln, end, cur, ob))
        for m in re.finditer(r'//\s*(A-[\w-]+)\s*:\s*(.*)', text):
            self.trusted.append('%s: %s' % (m.group(1), m.group(2).strip()))

    def item(self, file, kind, name, pub_fields=True, edits=None, derives=None, attrs=()):
        """struct/enum/const copied verbatim (R7: pub, R8: attrs/docs dropped)."""
        src = read_src(file)
        item_start, start, end = find_item(src, kind, name)
        t = Text(src[start:end], '%s::%s' % (file, name))
        r8_cfg(t)
        r8_attrs_docs(t)
        if kind in ('struct', 'enum') and pub_fields:
            if not t.t.lstrip().startswith('pub'):
                t.edit('R7', 0, 0, 'pub ')
            t.sub_code('R7', r'pub\(crate\)\s*', 'pub ')
            if kind == 'struct':
                # only inside the field block (a where clause also has `name: bound` lines)
                while True:
                    code = code_mask(t.t)
                    b0 = next((i for i, ch in enumerate(t.t) if ch == '{' and code[i]), -1)
                    if b0 < 0:
                        break
                    m = re.compile(r'(?m)^(\s+)(?!pub\b)(\w+\s*:(?!:))').search(t.t, b0)
                    if not m:
                        break
                    t.edit('R7', m.start(), m.end(), m.group(1) + 'pub ' + m.group(2))
        elif kind in ('const', 'static'):
            t.sub_code('R7', r'pub\(crate\)\s*', 'pub ')
            if not t.t.lstrip().startswith('pub'):
                t.edit('R7', 0, 0, 'pub ')
            t.sub_code('R16', r":\s*&str\b", ": &'static str")
        for e in edits or []:
            e(t)
        t.check_reversible()
        line0 = src.count('\n', 0, start) + 1
        self.functions.append(dict(item='%s %s' % (kind, name), file=file, lines=[line0, src.count('\n', 0, end) + 1],
                                   sha256=hashlib.sha256(src[start:end].encode()).hexdigest()))
        self.rewrites += [dict(item=name, **{k: v for k, v in e.items()}) for e in t.log]
        self.lost += t.lost
        for a in attrs:
            self._emit(a)
        if derives:
            self._emit('#[derive(%s)]' % derives)
        self._emit(t.t)
        return t

    def fn(self, file, name, nth=0, within=None, header=None, attrs=(), requires=(), ensures=(), loops=None,
           hints=(), body_start=None, props=None, sig_edits=(), body_edits=(), try_macro=None, display=None,
           decreases=None, recommends=None, close=True, closures=None, vacuity=True, returns=None):
        """Extract fn `name` verbatim, rewrite (logged), splice the contract, emit.
        header: text opening the enclosing impl (emitted before; closed after when close=True)."""
        props = props or self.props
        src = read_src(file)
        loc = find_fn(src, name, nth, within)
        sig = Text(src[loc['sig_start']:loc['body_open']], '%s::%s(sig)' % (file, name))
        body = Text(src[loc['body_open']:loc['body_end']], '%s::%s(body)' % (file, name))
        disp = display or (name if not within else '%s::%s' % (re.sub(r'^impl(<[^>]*>)?\s*', '', norm_ws(within)), name))
        # --- rewrites ---
        r6_pin_receiver(sig)
        sig.sub_code('R7', r'^\s*pub(\((?:crate|super|in [\w:]+)\))?\s+', lambda m: m.group(0)[:len(m.group(0)) - len(m.group(0).lstrip())])
        r5_mut_self(sig, body)
        r5_mut_params_async(sig, body)
        r1_name_result(sig)
        r8_cfg(sig)
        r8_cfg(body)
        r4_closure_underscore(body)
        r3_ctor_as_fn(body)
        r10_index_mut_from(body)
        for e in sig_edits:
            e(sig)
        if try_macro is None:
            # R2 is applied to every `?` of a Poll-returning fn (token pattern, not by site)
            mret = re.search(r'->\s*\(r:\s*(Poll<\s*(Option<\s*)?Result<)', sig.t)
            if mret:
                try_macro = 'vtry' if mret.group(2) else 'vtry_r'
        if try_macro:
            r2_try_in_poll(body, try_macro)
        for e in body_edits:
            e(body)
        # --- splices ---
        # loop invariants are keyed by loop ordinal.  Guard against reordered / replaced loops (a harmless edit of /repo may swap
        # two independent loops): the header of every loop that gets an invariant must be the one recorded on the reference tree
        loop_heads = [norm_ws(body.t[a:b]) for a, b in body.loops()]
        self.loop_sigs[disp] = loop_heads
        base_heads = base_loops().get(self.name, {}).get(disp)
        if base_heads is not None and loops:
            for k in loops:
                if k < len(loop_heads) and k < len(base_heads) and loop_heads[k] != base_heads[k]:
                    body.lost.append('loop #%d has another header than on the reference tree (%r vs %r): invariants may be attached to the wrong loop' % (k, loop_heads[k][:60], base_heads[k][:60]))
        n_loops = len(body.loops())
        if n_loops > len(loops or {}):
            # a loop the unit has no invariant for (e.g. introduced by an edit of /repo): a failing obligation of this
            # function may just be the missing invariant -> undecided, never an alarm
            body.lost.append('loop without a registered invariant (%d loops, %d specs)' % (n_loops, len(loops or {})))
        # closure contracts are keyed by ordinal.  Guard against a shifted ordinal (a closure removed / added by an edit of
        # /repo): the parameter list of every contracted closure must be the one recorded on the reference tree.  A contract
        # whose closure no longer exists at the END of the list is dropped (nothing to attach it to; harmless), any other
        # mismatch makes failures of this function undecided.
        now_params = closure_params(body.t)
        self.closure_sigs[disp] = now_params
        base_params = base_closures().get(self.name, {}).get(disp)
        for k, spec in sorted((closures or {}).items()):
            j = k
            if base_params is not None and k < len(base_params):
                fp = base_params[k]
                if k < len(now_params) and now_params[k] == fp:
                    j = k
                elif now_params.count(fp) == 1:
                    j = now_params.index(fp)          # same closure, another ordinal (closures were added / removed before it)
                    self.notes.append('%s: closure #%d of the reference tree is closure #%d now' % (disp, k, j))
                elif len(now_params) == len(base_params):
                    j = k                             # edited in place
                elif len(now_params) < len(base_params) and all(now_params.count(base_params[i]) == 1 for i in range(len(base_params)) if i != k):
                    self.notes.append('%s: closure #%d of the reference tree no longer exists; its contract is dropped' % (disp, k))
                    continue
                else:
                    body.lost.append('closure #%d of the reference tree cannot be located any more (closures were added / removed / edited): its contract is not applied' % k)
                    continue
            _closure_contract(body, j, spec)
        for k, spec in sorted((loops or {}).items(), reverse=True):
            body.loop_spec(k, _loop_text(spec), iter_name=(spec.get('iter') if isinstance(spec, dict) else None))
        for h in hints:
            where, needle, text = h[0], h[1], h[2]
            nthh = h[3] if len(h) > 3 else 0
            # fallback anchors: (where, needle, nth) alternatives tried in order when the primary anchor is gone
            if body.find_code(needle, nthh) < 0 and len(h) > 4:
                for (w2, n2, k2) in h[4]:
                    if body.find_code(n2, k2) >= 0:
                        where, needle, nthh = w2, n2, k2
                        break
            if where == 'replace':
                pz = body.find_code(needle, nthh)
                if pz < 0:
                    body.lost.append('anchor %r' % needle)
                else:
                    body.edit('S-hint', pz, pz + len(needle), text)
            elif where == 'before':
                body.insert_before_line_of('S-hint', needle, HINT_OPEN + text + HINT_CLOSE, nthh)
            else:
                body.insert_after_line_of('S-hint', needle, HINT_OPEN + text + HINT_CLOSE, nthh)
        if getattr(self, 'every_body_start', None):
            # a unit-wide proof hint (e.g. `broadcast use ..;`): put in front of every verified body
            body_start = self.every_body_start + (' ' + body_start.lstrip() if body_start else '')
        if body_start:
            body.at_body_start(HINT_OPEN + body_start + HINT_CLOSE)
        sig.check_reversible()
        body.check_reversible()
        # --- evidence bookkeeping ---
        line0 = src.count('\n', 0, loc['sig_start']) + 1
        line1 = src.count('\n', 0, loc['body_end']) + 1
        self.functions.append(dict(item='fn ' + disp, file=file, lines=[line0, line1],
                                   sha256=hashlib.sha256(src[loc['sig_start']:loc['body_end']].encode()).hexdigest()))
        for e in sig.log + body.log:
            if not e['rule'].startswith('S-'):
                self.rewrites.append(dict(item=disp, rule=e['rule'], old=e['old'][:120], new=e['new'][:120]))
        self.lost += ['%s: %s' % (disp, l) for l in sig.lost + body.lost]
        # --- emit ---
        if header:
            self._emit(header)
            self._open_header = header
        fn_from = len(self.lines) + 1
        for a in attrs:
            self._emit('    ' + a)
        self._emit(sig.t.rstrip())
        safety = '%s::%s::safety' % (self.name, disp)
        # a function that may panic (or whose loop invariants / callee preconditions no longer hold) fails every property one of
        # its clauses serves: the safety obligation carries the union of the function's tags and its clauses' tags
        sprops = list(props)
        for c in ensures:
            for q in ((c.props if isinstance(c, Clause) else (c[2] if len(c) > 2 else None)) or []):
                if q not in sprops:
                    sprops.append(q)
        self.obligations[safety] = dict(props=sprops, kind='safety', fn=disp,
                                        text='no overflow / index / unwrap / panic; callee preconditions hold; loop invariants hold')
        if requires:
            self._emit('        requires')
            for r in requires:
                self._emit('            ' + r.strip().rstrip(',') + ',')
        iso = getattr(TLS, 'isolate', None)
        if iso and iso[0] == disp:
            ensures = [c for c in ensures if (c.label if isinstance(c, Clause) else c[0]) == iso[1]]
        if ensures:
            self._emit('        ensures')
            for c in ensures:
                if not isinstance(c, Clause):
                    c = Clause(*c)
                ob = '%s::%s::%s' % (self.name, disp, c.label)
                a, b = self._emit('            ' + c.text + ',')
                self.labels.append((a, b, ob))
                self.obligations[ob] = dict(props=c.props or props, kind='ensures', fn=disp, text=norm_ws(c.text)[:400])
        if returns:
            self._emit('        returns ' + returns)
        if decreases:
            self._emit('        decreases ' + decreases)
        body_a, _ = self._emit(body.t)
        cl_clauses = {c.label: c for sp in (closures or {}).values() for c in (sp.get('ensures') or []) if isinstance(c, Clause)}
        for off, line in enumerate(body.t.split('\n')):
            for ml in re.finditer(r'/\*VL:(\w+)\*/', line):
                c = cl_clauses.get(ml.group(1))
                if c is not None:
                    ob = '%s::%s::%s' % (self.name, disp, c.label)
                    self.labels.append((body_a + off, body_a + off, ob))
                    self.obligations[ob] = dict(props=c.props or props, kind='ensures', fn=disp, text=norm_ws(c.text)[:400])
        fn_to = len(self.lines)
        self.fn_ranges.append((fn_from, fn_to, disp, safety))
        if requires and vacuity:
            self.vacuity_fns.append(dict(header=getattr(self, '_open_header', None), attrs=list(attrs), sig=sig.t.rstrip(), requires=list(requires),
                                         name=name, disp=disp, close=close))
        if header and close:
            self._emit('}')
            self._open_header = None
        return body

    def macro(self, file, name):
        """`macro_rules! name { .. }` copied verbatim (no rewrite): the code that uses it is expanded by rustc as in /repo"""
        src = read_src(file)
        code = code_mask(src)
        m = next((m for m in re.finditer(r'macro_rules!\s+%s\s*\{' % re.escape(name), src) if code[m.start()]), None)
        if not m:
            raise Infra('macro_rules! %s not found in %s' % (name, file))
        end = match_brace(src, code, m.end() - 1)
        self.functions.append(dict(item='macro ' + name, file=file, lines=[src.count('\n', 0, m.start()) + 1, src.count('\n', 0, end) + 1],
                                   sha256=hashlib.sha256(src[m.start():end].encode()).hexdigest()))
        self._emit('#[allow(unused_macros)]\n' + src[m.start():end])

    def exec_const(self, file, name, ensures, props=None, indent='    ', edits=None):
        """R13: `const NAME: T = EXPR;` (an initialiser that calls exec const fns) becomes
        `exec const NAME: T ensures .. { EXPR }`; the ensures clauses are obligations like any other."""
        props = props or self.props
        src = read_src(file)
        item_start, start, end = find_item(src, 'const', name)
        t = Text(src[start:end], '%s::%s' % (file, name))
        r8_cfg(t)
        m = re.match(r'\s*(pub(\([a-z]+\))?\s+)?const\s+', t.t)
        t.edit('R13', 0, m.end(), 'pub exec const ')
        t.sub_code('R16', r":\s*&str\b", ": &'static str")
        t.sub_code('R16', r":\s*&\[u8\]", ": &'static [u8]")
        for e in edits or []:
            e(t)
        # `: TYPE = EXPR;`
        code = code_mask(t.t)
        eq = next(i for i, ch in enumerate(t.t) if ch == '=' and code[i] and t.t[i + 1] != '=' and t.t[i - 1] not in '=!<>')
        semi = t.t.rstrip().rfind(';')
        t.edit('R13', semi, semi + 1, ' }')
        disp = 'const ' + name
        ens_lines = []
        t.check_reversible()
        self.functions.append(dict(item=disp, file=file, lines=[src.count('\n', 0, start) + 1, src.count('\n', 0, end) + 1],
                                   sha256=hashlib.sha256(src[start:end].encode()).hexdigest()))
        self.rewrites += [dict(item=disp, rule=e['rule'], old=e['old'][:80], new=e['new'][:80]) for e in t.log]
        head, tail = t.t[:eq], t.t[eq + 1:]
        a0 = len(self.lines) + 1
        self._emit(indent + head.strip())
        self._emit(indent + '    ensures')
        for c in ensures:
            if not isinstance(c, Clause):
                c = Clause(*c)
            ob = '%s::%s::%s' % (self.name, disp, c.label)
            a, b = self._emit(indent + '        ' + c.text + ',')
            self.labels.append((a, b, ob))
            self.obligations[ob] = dict(props=c.props or props, kind='ensures', fn=disp, text=norm_ws(c.text)[:400])
        self._emit(indent + '{' + tail)
        safety = '%s::%s::safety' % (self.name, disp)
        # a function that may panic (or whose loop invariants / callee preconditions no longer hold) fails every property one of
        # its clauses serves: the safety obligation carries the union of the function's tags and its clauses' tags
        sprops = list(props)
        for c in ensures:
            for q in ((c.props if isinstance(c, Clause) else (c[2] if len(c) > 2 else None)) or []):
                if q not in sprops:
                    sprops.append(q)
        self.obligations[safety] = dict(props=sprops, kind='safety', fn=disp, text='initialiser preconditions hold')
        self.fn_ranges.append((a0, len(self.lines), disp, safety))

    def const_guard(self, file, name, expect_norm, shim):
        """A constant whose initialiser Verus cannot evaluate (size_of): the extractor checks that the source text is
        still the expected expression and emits the evaluated shim; a changed initialiser is an infrastructure result."""
        src = read_src(file)
        _, start, end = find_item(src, 'const', name)
        code = code_mask(src)
        txt = ''.join(ch for k, ch in enumerate(src[start:end]) if code[start + k])
        if norm_ws(txt).replace(' ', '') != expect_norm.replace(' ', ''):
            raise Infra('const %s changed: %r' % (name, norm_ws(txt)))
        self.functions.append(dict(item='const ' + name + ' (text guard, evaluated by shim)', file=file,
                                   lines=[src.count('\n', 0, start) + 1, src.count('\n', 0, end) + 1],
                                   sha256=hashlib.sha256(src[start:end].encode()).hexdigest()))
        self._emit(shim)

    def fn_guard(self, file, name, expect_norm, within=None, nth=0, why=''):
        """A tonic function that is represented by an assumed shim (its body is out of reach): the extractor checks that its
        source text is still the text the shim was written for.  A changed body makes the unit UNDECIDED (exit 2): the shim may
        no longer describe it - never an alarm, never a silent pass."""
        src = read_src(file)
        loc = find_fn(src, name, nth, within)
        code = code_mask(src)
        a, b = loc['sig_start'], loc['body_end']
        txt = re.sub(r'//[^\n]*', '', src[a:b])      # literals kept (the mask would blank them), line comments dropped
        if norm_ws(txt).replace(' ', '') != norm_ws(expect_norm).replace(' ', ''):
            raise Infra('fn %s (%s) is represented by an assumed shim and its text changed: %r' % (name, file, norm_ws(txt)[:200]))
        self.functions.append(dict(item='fn %s (text guard: represented by an assumed shim%s)' % (name, (': ' + why) if why else ''), file=file,
                                   lines=[src.count('\n', 0, a) + 1, src.count('\n', 0, b) + 1],
                                   sha256=hashlib.sha256(src[a:b].encode()).hexdigest()))

    def close(self, text='}'):
        self._emit(text)
        self._open_header = None

    def vacuity_block(self):
        """Reachability probes: same signature and requires, body `assert(false)`; each MUST fail."""
        for v in self.vacuity_fns:
            sig = re.sub(r'\bfn\s+' + re.escape(v['name']) + r'\b', 'fn %s__vacuity' % v['name'], v['sig'], count=1)
            if v['header']:
                self._emit(v['header'])
            a0 = len(self.lines) + 1
            for a in v['attrs']:
                if 'loop_isolation' in a:
                    continue
                self._emit('    ' + a)
            self._emit(sig)
            self._emit('        requires')
            for r in v['requires']:
                self._emit('            ' + r.strip().rstrip(',') + ',')
            ln, _ = self._emit('    { proof { assert(false); } vstd::pervasive::unreached() }')
            name = '%s::%s::vacuity' % (self.name, v['disp'])
            self.expected_fail.add(name)
            self.fn_ranges.append((a0, len(self.lines), v['disp'] + '__vacuity', name))
            if v['header']:
                self._emit('}' * max(1, v['header'].count('{') - v['header'].count('}')))

    def text(self):
        return '\n'.join(self.lines) + '\n'


def _loop_text(spec):
    if isinstance(spec, str):
        return spec
    out = []
    for key in ('invariant_except_break', 'invariant', 'ensures', 'decreases'):
        if key in spec:
            out.append('            ' + key)
            for c in spec[key]:
                out.append('                ' + c.strip().rstrip(',') + ',')
    return '\n'.join(out)


def closure_starts(t):
    """(start, end-of-parameter-list) of every closure in t, in source order"""
    code = code_mask(t)
    starts = []
    i = 0
    while i < len(t):
        if code[i] and t[i] == '|':
            j = i - 1
            while j >= 0 and t[j].isspace():
                j -= 1
            prev = t[j] if j >= 0 else '('
            word = re.search(r'(\w+)\s*$', t[:i])
            if prev in '(,=' or (word and word.group(1) in ('move', 'return')):
                close = i + 1 if t[i + 1] == '|' else t.find('|', i + 1)
                starts.append((i, close))
                i = close + 1
                continue
        i += 1
    return starts


def closure_params(t):
    """fingerprint of every closure: its parameter list and the beginning of its body (normalised)"""
    return [norm_ws(t[a:b + 1]) + ' ' + norm_ws(t[b + 1:b + 61]) for a, b in closure_starts(t)]


HINT_OPEN, HINT_CLOSE = '/*VH{*/', '/*}VH*/'     # proof hints spliced into real function text are bracketed by these comments
_BASE_CLOSURES = None
_BASE_LOOPS = None


def base_loops():
    """headers of the loops of each function on the reference tree (recorded by --rebaseline)"""
    global _BASE_LOOPS
    if _BASE_LOOPS is None:
        p = os.path.join(os.path.dirname(os.path.abspath(__file__)), 'baseline_obligations.json')
        try:
            _BASE_LOOPS = json.load(open(p)).get('__loops__', {})
        except Exception:
            _BASE_LOOPS = {}
    return _BASE_LOOPS


def base_closures():
    """parameter lists of the closures of each function on the reference tree (recorded by --rebaseline)"""
    global _BASE_CLOSURES
    if _BASE_CLOSURES is None:
        p = os.path.join(os.path.dirname(os.path.abspath(__file__)), 'baseline_obligations.json')
        try:
            _BASE_CLOSURES = json.load(open(p)).get('__closures__', {})
        except Exception:
            _BASE_CLOSURES = {}
    return _BASE_CLOSURES


def _closure_contract(body: Text, k, spec):
    """R11: k-th closure `|args| EXPR` gets typed params, named result and requires/ensures.
    spec = dict(params='s: &str', ret='(r: Option<X>)', requires=[..], ensures=[..])"""
    code = code_mask(body.t)
    # closures: a `|` in code that starts a parameter list: preceded by `(`, `,`, `=`, `move`, whitespace after those
    starts = []
    i = 0
    t = body.t
    while i < len(t):
        if code[i] and t[i] == '|' and not (i + 1 < len(t) and t[i + 1] == '|' and False):
            j = i - 1
            while j >= 0 and t[j].isspace():
                j -= 1
            prev = t[j] if j >= 0 else '('
            word = re.search(r'(\w+)\s*$', t[:i])
            if prev in '(,=' or (word and word.group(1) in ('move', 'return')):
                if t[i + 1] == '|':
                    close = i + 1
                else:
                    close = t.find('|', i + 1)
                starts.append((i, close))
                i = close + 1
                continue
        i += 1
    if k >= len(starts):
        body.lost.append('closure #%d' % k)
        return False
    a, b = starts[k]
    # closure body: expression up to the matching `)` or `,` at depth 0, or a block
    i = b + 1
    while t[i].isspace():
        i += 1
    if t[i] == '{':
        end = match_brace(t, code, i)
        expr = t[i:end]
        wrap = False
    else:
        d = 0
        j = i
        while j < len(t):
            if code[j]:
                if t[j] in '([{':
                    d += 1
                elif t[j] in ')]}':
                    if d == 0:
                        break
                    d -= 1
                elif t[j] == ',' and d == 0:
                    break
            j += 1
        end = j
        expr = t[i:end]
        wrap = True
    # the contract names the parameters; when /repo calls them differently (a renamed closure parameter), the contract follows
    def _names(ps):
        out, d, cur = [], 0, ''
        for ch in ps + ',':
            if ch in '([{<':
                d += 1
            elif ch in ')]}>':
                d -= 1
            if ch == ',' and d == 0:
                if cur.strip():
                    out.append(cur.strip())
                cur = ''
            else:
                cur += ch
        return [re.sub(r'^mut\s+', '', x.split(':')[0].strip()) for x in out]
    src_names, spec_names = _names(t[a + 1:b]), _names(spec['params'])
    ren = {}
    if len(src_names) == len(spec_names) and all(re.fullmatch(r'[A-Za-z_]\w*', n) for n in src_names):
        ren = {sp: sr for sp, sr in zip(spec_names, src_names) if sp != sr and sr != '_' and not sr.startswith('_')}
    def _ren(x):
        for sp, sr in ren.items():
            x = re.sub(r'\b%s\b' % re.escape(sp), sr, x)
        return x
    head = '|' + _ren(spec['params']) + '| -> ' + spec['ret']
    if spec.get('requires'):
        head += ' requires ' + ', '.join(_ren(x) for x in spec['requires']) + ','
    if spec.get('ensures'):
        if any(isinstance(x, Clause) for x in spec['ensures']):
            # labelled closure postconditions: one per line behind a marker, so that a failing one is reported as its own
            # obligation (with its own property tags) instead of the enclosing function's safety obligation
            head += '\n            ensures\n' + ''.join('                %s%s,\n' % ('/*VL:%s*/ ' % x.label if isinstance(x, Clause) else '', _ren(x.text if isinstance(x, Clause) else x)) for x in spec['ensures']) + '           '
        else:
            head += ' ensures ' + ', '.join(_ren(x) for x in spec['ensures']) + ','
    # apply back to front so offsets stay valid
    if wrap:
        body.edit('R11', end, end, ' }', 'closure #%d' % k)
        body.edit('R11', i, i, '{ ', 'closure #%d' % k)
    body.edit('R11', a, b + 1, head, 'closure #%d' % k)
    return True


# --------------------------------------------------------------------------------------
# running Verus and mapping the diagnostics

VERIF_ERRORS = ('postcondition not satisfied', 'precondition not satisfied', 'invariant not satisfied',
                'assertion failed', 'possible arithmetic underflow/overflow', 'possible division by zero',
                'possible bit shift', 'index out of bounds', 'cannot show', 'unreachable', 'decreases not satisfied',
                'loop invariant', 'recommendation not met', 'could not show termination', 'failed to prove', 'unable to prove',
                'constructed value may fail to meet its declared type invariant', 'panic')


def run_verus(unit: Unit, outdir, seed=0, rlimit=None, extra=()):
    os.makedirs(outdir, exist_ok=True)
    path = os.path.join(outdir, unit.name + '.rs')
    open(path, 'w').write(unit.text())
    cmd = ['verus', path, '--output-json', '--time', '--multiple-errors', '20', '--error-format=json',
           '--smt-option', 'smt.random_seed=%d' % seed, '--no-report-long-running']
    if rlimit:
        cmd += ['--rlimit', str(rlimit)]
    cmd += list(extra)
    t0 = time.time()
    p = subprocess.run(cmd, capture_output=True, text=True, cwd=outdir)
    wall = time.time() - t0
    res = dict(cmd=' '.join(cmd), wall_s=round(wall, 2), rc=p.returncode, path=path)
    try:
        js = json.loads(p.stdout[p.stdout.index('{'):])
    except Exception:
        js = None
    diags = []
    for line in p.stderr.splitlines():
        line = line.strip()
        if line.startswith('{'):
            try:
                d = json.loads(line)
            except Exception:
                continue
            if d.get('$message_type') == 'diagnostic':
                diags.append(d)
    res['json'] = js
    res['diags'] = diags
    res['stderr_tail'] = p.stderr[-3000:]
    return res


def classify(unit: Unit, res):
    """-> dict(status per obligation, infra problems, failures with rendered text)"""
    out = dict(failed={}, undecided={}, infra=[], fn_stats={}, verified=0, errors=0)
    js = res['json']
    if js is None:
        out['infra'].append('verus produced no JSON (rc=%s): %s' % (res['rc'], res['stderr_tail'][-800:]))
        return out
    vr = js.get('verification-results', {})
    out['verified'] = vr.get('verified', 0)
    out['errors'] = vr.get('errors', 0)
    if vr.get('encountered-vir-error'):
        out['infra'].append('VIR error (unsupported construct)')
    if 'panicked at' in res.get('stderr_tail', '') or 'Internal Verus Error' in res.get('stderr_tail', ''):
        out['infra'].append('verus crashed: ' + res['stderr_tail'][-600:])
    if res['rc'] != 0 and out['errors'] == 0 and not any(d.get('level') == 'error' for d in res['diags']):
        out['infra'].append('verus exited with %s without reporting a verification result' % res['rc'])
    try:
        for mod in js['times-ms']['smt']['smt-run-module-times']:
            for f in mod.get('function-breakdown', []):
                out['fn_stats'][f['function']] = dict(ms=f['time'], rlimit=f['rlimit'], success=f['success'])
    except Exception:
        pass

    def owner(line):
        best = None
        for a, b, disp, ob in unit.fn_ranges:
            if a <= line <= b and (best is None or (b - a) < (best[1] - best[0])):
                best = (a, b, disp, ob)
        return best

    def label_at(line):
        for a, b, ob in unit.labels:
            if a <= line <= b:
                return ob
        return None

    # lines that belong to spliced proof hints
    hint_lines = set()
    depth = 0
    for ln, text in enumerate('\n'.join(unit.lines).split('\n'), 1):
        if HINT_OPEN in text:
            depth += text.count(HINT_OPEN)
        if depth > 0:
            hint_lines.add(ln)
        if HINT_CLOSE in text:
            depth -= text.count(HINT_CLOSE)
    out['hint_only'] = {}

    for d in res['diags']:
        if d.get('level') != 'error':
            continue
        msg = d.get('message', '')
        if msg.startswith('aborting due to'):
            continue
        spans = d.get('spans', [])
        prim = [s for s in spans if s.get('is_primary')] or spans
        if not any(k in msg for k in VERIF_ERRORS) and 'rlimit' not in msg.lower() and 'resource limit' not in msg.lower():
            out['infra'].append('compile/front-end error: %s @ line %s\n%s' % (msg, prim[0]['line_start'] if prim else '?', (d.get('rendered') or '')[:1500]))
            continue
        rendered = d.get('rendered', msg)
        if 'rlimit' in msg.lower() or 'resource limit' in msg.lower():
            o = owner(prim[0]['line_start']) if prim else None
            name = o[3] if o else unit.name + '::?'
            out['undecided'][name] = rendered
            continue
        ob = None
        for s in spans:
            ob = ob or label_at(s['line_start'])
        if ob is None and prim:
            o = owner(prim[0]['line_start'])
            if o is None:
                # e.g. a trait-level ensures clause that an impl method fails: the other span is inside the method
                for sp in spans:
                    o = o or owner(sp['line_start'])
            if o is None:
                # a failure inside a shadow macro (`unreachable!()`, `assert!`): the spans point at the macro definition in the
                # prelude; the invocation site is in the expansion chain
                for sp in spans:
                    e = sp.get('expansion')
                    while e and o is None:
                        es = e.get('span') or {}
                        if es.get('line_start'):
                            o = owner(es['line_start'])
                        e = es.get('expansion')
            if o is None:
                # an error inside the prelude itself
                out['infra'].append('verification error outside any unit function: %s @ line %s' % (msg, prim[0]['line_start']))
                continue
            ob = o[3]
        elif ob is not None and prim:
            # a labelled clause of f that fails inside a *caller* g is g's safety obligation (callee precondition)
            if 'precondition' in msg:
                o = owner(prim[0]['line_start'])
                ob = o[3] if o else ob
        out['failed'].setdefault(ob, []).append(rendered)
        in_hint = bool(prim) and prim[0]['line_start'] in hint_lines and ('assertion failed' in msg or 'precondition not satisfied' in msg)
        out['hint_only'].setdefault(ob, []).append(in_hint)
    # an obligation ALL of whose failures sit inside spliced proof hints (a failing intermediate assertion / lemma precondition)
    out['hint_only'] = {ob: all(v) for ob, v in out['hint_only'].items()}
    # rlimit-undecided functions make all their obligations undecided
    return out


def sha(text):
    return hashlib.sha256(text.encode()).hexdigest()
