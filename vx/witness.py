"""Witness search for Verus verdicts (DESIGN 2.4): Verus gives no counterexample, so when an obligation fails the driver
runs the native witness tests registered for the property against the REAL code (a scratch copy of /repo's working tree with
a #[cfg(test)] module appended) and stores the failing test + its output in the replay file.  A failing witness test is a
concrete input that misbehaves; no failing test => the VIOLATION line ends with no-failing-input-found."""
import os
import re
import shutil
import subprocess

import registry
import vxlib

ROOT = os.path.dirname(os.path.dirname(os.path.abspath(__file__)))
CACHE = os.path.join(ROOT, '.cache', 'witness-target')


def _scratch_copy(work):
    dst = os.path.join(work, 'repo-copy')
    if not os.path.exists(dst):
        subprocess.run(['rsync', '-a', '--exclude', 'target', '--exclude', '.git', vxlib.REPO + '/', dst + '/'], check=True)
    return dst


def run_tests(prop, work, timeout=900):
    spec = registry.PROPS.get(prop, {})
    out = []
    for w in spec.get('witness', []):
        dst = _scratch_copy(work)
        target = os.path.join(dst, w['append_to'])
        mod = open(os.path.join(ROOT, w['module'])).read()
        src = open(target).read()
        if w['filter'] not in src:
            open(target, 'a').write('\n' + mod)
        os.makedirs(CACHE, exist_ok=True)
        env = dict(os.environ, CARGO_TARGET_DIR=CACHE, CARGO_NET_OFFLINE='true')
        cmd = ['cargo', 'test', '--offline', '-p', w['crate'], '--lib'] + w.get('features', []) + [w['filter'], '--', '--test-threads', '4']
        try:
            p = subprocess.run(cmd, cwd=dst, env=env, capture_output=True, text=True, timeout=timeout)
            txt = p.stdout + p.stderr
            failed = re.findall(r'^test (\S+) \.\.\. FAILED', txt, re.M)
            ran = re.findall(r'^test (\S+) \.\.\. (?:ok|FAILED)', txt, re.M)
            panics = re.findall(r"panicked at [^\n]*\n[^\n]*", txt)
            out.append(dict(cmd=' '.join(cmd), module=w['module'], ran=len(ran), failed=failed, detail=panics[:4], rc=p.returncode,
                            build_error=(p.returncode != 0 and not ran and txt[-1500:]) or None))
        except subprocess.TimeoutExpired:
            out.append(dict(cmd=' '.join(cmd), module=w['module'], ran=0, failed=[], detail=['timeout'], rc=None))
    return out


def search(prop, ob, work):
    res = run_tests(prop, work)
    if not res:
        return dict(found=False, why='no witness tests are registered for this property')
    found = any(r['failed'] for r in res)
    return dict(found=found, runs=res)


def rerun(rep):
    import tempfile
    work = tempfile.mkdtemp(prefix='verif-replay-')
    try:
        res = run_tests(rep['property'], work)
        for r in res:
            print('witness tests %s: ran %d, failed %s' % (r['module'], r['ran'], r['failed']))
            for d in r['detail']:
                print('  ' + d.replace('\n', '\n  '))
        return 1 if any(r['failed'] for r in res) else 0
    finally:
        shutil.rmtree(work, ignore_errors=True)
