#!/usr/bin/env python3
"""developer loop: generate one unit, run Verus, print mapped results"""
import sys, os, importlib, json
sys.path.insert(0, os.path.dirname(os.path.abspath(__file__)))
import vxlib
def main():
    name = sys.argv[1]
    mod = importlib.import_module('units.' + name)
    u = mod.build()
    if '--novac' not in sys.argv:
        u.vacuity_block()
    u.close('} // verus!\nfn main() {}')
    out = os.environ.get('VX_OUT', '/tmp/vxdev')
    res = vxlib.run_verus(u, out, rlimit=float(os.environ.get('RLIMIT', '30')))
    c = vxlib.classify(u, res)
    print('file', res['path'], 'wall', res['wall_s'], 'verified', c['verified'], 'errors', c['errors'])
    for i in c['infra']: print('INFRA', i)
    for l in u.lost: print('LOST', l)
    try:
        sys.path.insert(0, os.path.join(os.path.dirname(os.path.abspath(__file__)), '..', 'bin'))
        import importlib.machinery as _ilm, importlib.util as _ilu
        ld = _ilm.SourceFileLoader('vcheck', os.path.join(os.path.dirname(os.path.abspath(__file__)), '..', 'bin', 'check'))
        spec = _ilu.spec_from_loader('vcheck', ld); vmod = _ilu.module_from_spec(spec); ld.exec_module(vmod)
        for pr in vmod.assumption_scan(u): print('INFRA(scan)', pr)
    except Exception as e:
        print('scan unavailable', e)
    for ob, rs in c['failed'].items():
        tag = 'expected' if ob in u.expected_fail else 'FAIL'
        print(tag, ob)
        if tag == 'FAIL' or '-v' in sys.argv:
            for r in rs[:3]: print('   ' + r.replace('\n', '\n   '))
    for ob, r in c['undecided'].items(): print('UNDECIDED', ob, r[:300])
    missing = [v for v in u.expected_fail if v not in c['failed']]
    for m in missing: print('VACUOUS?', m)
    if c['infra'] and res['stderr_tail'] and '-e' in sys.argv: print(res['stderr_tail'])
    slow = sorted(((v['ms'], k) for k, v in c['fn_stats'].items()), reverse=True)[:5]
    print('slowest', slow)
    print('obligations', len(u.obligations))
main()
