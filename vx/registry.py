"""property -> units / Kani harness sets / prose for the evidence file"""

COMMON_TRUST = [
    'Verus 0.2026.09.13 + Z3 (soundness of the verifier and its vstd library)',
    'extraction: function text is copied verbatim from /repo on every run; only the logged rewrites R1-R12 are applied (see DESIGN.md 2.1); diagnostics text (format!) and tracing side effects are dropped',
    'machine integers are Verus fixed-width integers, overflow checked; usize is 64-bit',
    'termination is not proved for functions marked exec_allows_no_decreases_clause (poll loops over an external body/source)',
]

PROPS = {
    'C07': dict(
        units=['decode'], level='proof',
        not_covered=[
            '"every poll completes" is decided only as safety: each loop iteration of Streaming::poll_next either returns or polls the body exactly once; termination under a body that yields frames forever is liveness and not claimed',
            'compressed garbage: decompress() is behind contract A-compress-02 (flate2/zstd are FFI)',
            'undecodable payloads: the Decoder is behind codec contract A-codec-01 (prost)',
            'DecodeBuf::{chunk,advance,copy_to_bytes} asserts are the decoder implementation\'s obligations',
        ]),
}
