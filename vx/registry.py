"""property -> units / Kani harness sets / prose for the evidence file"""

COMMON_TRUST = [
    'Verus 0.2026.09.13 + Z3 (soundness of the verifier and its vstd library)',
    'extraction: function text is copied verbatim from /repo on every run; only the logged rewrites R1-R12 are applied (see DESIGN.md 2.1); diagnostics text (format!) and tracing side effects are dropped',
    'machine integers are Verus fixed-width integers, overflow checked; usize is 64-bit',
    'termination is not proved for functions marked exec_allows_no_decreases_clause (poll loops over an external body/source)',
]

PROPS = {
    'C15': dict(
        units=['tls', 'serverconfig'], level='proof',
        not_covered=[
            'decided here is WHAT TONIC ASKS RUSTLS TO DO (the configuration it assembles and the checks it makes around the handshake); certificate path validation, name matching, the handshake itself and ALPN negotiation are rustls / tokio-rustls: a session is assumed to exist only if the handshake succeeded under the ClientConfig / ServerConfig and server name it was started with (A-rustls-02), and the builder calls are records of what was asked for (A-rustls-01)',
            'the fixed feature configuration is tls-ring without tls-native-roots / tls-webpki-roots: the code guarded by those two features (extra root sources) is configured out and not verified',
            'Connector::call is verified through its two nested async blocks lifted into async fns (R28) and a postcondition of `call` about the future it returns; Endpoint::{tls_config, connector, new_uri, new_uds} and Server::{tls_config, default, builder} ARE under contract in unit serverconfig (the endpoint / server store exactly the connector / acceptor the configuration yields - an opaque function of the configuration there, its content being the contract of unit tls -, a configuration that yields none is an error, a fresh endpoint / server has no TLS and no timeout); Endpoint::new (which turns TLS on for https URIs by default, through TryInto) and Endpoint::connect* are not',
            'the server accept loop IS under contract (io_stream.rs: ServerIoStream::{new, poll_next_without_tls, poll_next} and the handshake task lifted from JoinSet::spawn, R28): with an acceptor configured nothing is handed to the HTTP stack but TLS streams whose handshake ran under it; tonic\'s `select` (tokio::select! over the listener and the handshake tasks) is NOT verified: it is represented by an assumed one-poll shim (a finished connection is one some task yielded, polling adds no task, A-tonic-select-01) and its text is pinned by a guard, so any edit of it makes C15 undecided; handle_tcp_accept_error is an opaque call; a JoinSet is known only by what its tasks may yield (A-tokio-10)',
            'ServerIo::{new_io, new_tls_io, connect_info}, ServerIoConnectInfo::clone, ConnectInfoLayer::{new, layer}, ConnectInfo::{new, poll_ready, call} are under contract: every request on a TLS connection is handed on with that connection\'s TlsConnectInfo in its extensions (the Extensions type map is modelled for the two entries read here, and the listener\'s own connect info is TcpConnectInfo: A-http-41); where serve_connection builds that layer from io.connect_info() (server/mod.rs) is not under contract; Connected::connect_info for a TLS stream (exactly the verified peer certificates) and Request::peer_certs (exactly what was recorded for the connection) are',
            'PEM parsing (rustls-pki-types readers) is a function of the bytes (A-rustls-05); convert_identity_to_pki_types is under contract, convert_certificate_to_pki_types (iterator adapters) is its assumed twin',
            'ClientTlsConfig::with_enabled_roots starts from a fresh configuration (earlier settings are dropped): every effect of that is a stricter or failing connection, which the property allows; noted in DESIGN.md, not demanded otherwise',
        ]),
    'C20': dict(
        units=['richerror', 'richbuild', 'status', 'b64cfg'], level='proof',
        witness=[dict(append_to='tonic-types/src/richer_error/mod.rs', module='replay/richerror_witness.rs', crate='tonic-types', filter='verif_witness_richerror')],
        not_covered=[
            'prost: the protobuf encoding of google.rpc.Status / Any / the ten google.rpc detail messages and its decoder are an assumed inverse pair (A-prost-10: decode(encode(m)) == m, nothing else about the wire format); the #[derive(::prost::Message)] on the generated structs is the assumed Message impl (A-prost-13); prost_types::Duration <-> std::time::Duration conversions are assumed for normalised non-negative durations (A-prost-12)',
            'the header transport of Status::details (grpc-status-details-bin, base64) is the contract of unit status (C04 / C12), linked by lemma_c20_through_headers; tonic::Status::{with_details_and_metadata, details} are callee contracts in unit richerror (A-tonic-status-02) and proved on the real bodies in unit status, whose clauses for them count for C20 too',
            'retry delays outside the protobuf range (more than 315,576,000,000 s) and google.protobuf.Duration values that are negative or not normalised are outside the statement: the clauses about RetryInfo are conditional on the range',
            'with_error_details_vec* take `impl IntoIterator<Item = ErrorDetail>`; they are verified for Vec<ErrorDetail> (R12 specialisation)',
            'the ErrorDetails builder API (all 43 functions of error_details/mod.rs: new, with_* / set_* / add_* / has_* and the getters) and the std_messages constructors (new / with_violation / with_link / add_violation / add_link, row constructors) ARE under contract in unit richbuild: each fills its own field, or appends its own row in order, with exactly the arguments it was handed and leaves the other details alone; `impl Into<T>` parameters are specialised to `T` there (for which `.into()` is the identity, A-core-26), so what a conversion from another type does is not covered; RetryInfo::new is under contract in unit richerror (result within the protobuf range, an in-range delay is kept) and an opaque function of its argument in richbuild',
            'the four `From<..> for ..` impls that map a Vec through `.into_iter().map(Into::into).collect()` are verified as free-function copies of the same body text; the impl itself carries the proved clauses as an assumed contract (A-cut-03, R26)',
        ]),
    'C19': dict(
        witness=[dict(append_to='tonic-reflection/src/server/mod.rs', module='replay/reflection_witness.rs', crate='tonic-reflection', filter='verif_witness_reflection', features=['--features', 'tonic/router'])],
        units=['reflection', 'reflsvc'], level='proof',
        not_covered=[
            'the request loop of v1.rs / v1alpha.rs IS under contract (unit reflsvc): the async block handed to tokio::spawn is verified as an async fn of its captured variables (R28), over a cursor model of the request stream (A-tonic-decode-03) and a ghost log of the response channel (A-tokio-02); both versions are proved against the same answer function (the two files are textually parallel). tokio::spawn itself, task scheduling, and a response receiver that has gone away (the real expect("send") then panics inside the task, A-tokio-03) are outside; the lookups are linked through the contracts proved in unit reflection (A-tonic-refl-01)',
            'prost: FileDescriptorSet::decode and Message::encode are uninterpreted (A-prost-02/03), so "decodes to what was registered" is covered only up to prost encode/decode being inverse; the descriptor structs are shims with the fields the index reads (A-prost-01)',
            'extensions are not indexed by tonic (FileContainingExtension answers NOT_FOUND): outside the statement',
            'the service list for use_all_service_names == true is proved per file (process_file P3: exactly the declared services in order); ReflectionServiceState::new proves the explicit-names case, the union over files is not restated there',
            'Builder::{configure, register_*, include_reflection_service, with_service_name, build_v1, build_v1alpha} ARE under contract (the service is built over an index of every registered set plus, unless switched off, the protocol own descriptors); the text a chosen service name converts to (`impl Into<String>`) is not specified, and the generated ServerReflectionServer::new is assumed to wrap the service it is given (A-refl-codegen-01)',
        ]),
    'C02': dict(
        units=['encode', 'decode', 'status', 'reqresp', 'metadata', 'clientglue', 'serverglue', 'errmap', 'tbody', 'b64cfg'], level='proof',
        witness=[dict(append_to='tonic/src/status.rs', module='replay/status_witness.rs', crate='tonic', filter='verif_witness_status', features=['--features', 'gzip,deflate,zstd']), dict(append_to='tonic/src/codec/decode.rs', module='replay/decode_witness.rs', crate='tonic', filter='verif_witness_decode', features=['--features', 'gzip,deflate,zstd'])],
        not_covered=[
            'decided here: the hand-off of status / trailers / metadata at both ends (encode, decode, status units) AND the call-shape glue: client Grpc::{prepare_request, create_response, streaming, client_streaming, unary, server_streaming} and server Grpc::{map_request_unary, map_request_streaming, map_response, unary, server_streaming, client_streaming, streaming} as sequential async code (Verus treats .await as a call)',
            'the glue is proved RELATIVE to assumed interfaces: the transport (GrpcService: ghost log of requests + the answer its future resolves to), the handler (respond(): its answer is a function of handler and request), the Codec, and the Streaming stream API (try_next / trailers as functions nxt / trl of the stream state, A-tonic-decode-02); Streaming::message / Streaming::trailers are under contract in unit decode (message() is what the REAL poll_next answers when driven to readiness: await of poll_fn modelled as a poll-until-ready loop, A-future-04), but the glue units still see the stream through nxt / trl, not through those contracts',
            'the HTTP/2 transport between the two ends (hyper/h2): that the client http::Response carries the status line, headers, DATA and trailers the server produced, under any fragmentation and interleaving; task scheduling (the property quantifies over readiness interleavings: covered only per poll call by the ghost-history contracts of encode / decode)',
            'a status raised inside the server stack as a boxed error (a Status anywhere in the cause chain) leaves it as a trailers-only response spelling that status (unit errmap: RecoverError); on the client, Status::from_error_generic is linked into unit clientglue as a callee contract (lemma_transport_error_is_what_it_means: a call whose transport fails returns the status the error means)',
            'tonic::body::Body (body.rs): empty / from_kind / poll_frame / is_end_stream are under contract (unit tbody: an empty body has no frames, a wrapping body yields exactly what the wrapped body yields); Body::new (the `dyn Any` downcasts that avoid double boxing) is not, and the dispatcher units see a body through an uninterpreted erasure function (A-tonic-body-01)',
            'the generated code that picks the call shape (tonic-build output) is not under contract; server Grpc::apply_compression_config is (unit serverglue, G7, with the reference pattern of its for loop rewritten by R22)',
        ]),
    'C16': dict(
        units=['webserver', 'webservice', 'webtrailers', 'b64cfg'], level='proof',
        not_covered=[
            'encode_trailers is under contract through the assumed HeaderMap::iter / Iterator::fold contracts (A-http-28, A-core-20) with three logged let-introductions (R20); a rewrite of it onto another iterator API (into_iter, for loops) leaves the shim and is reported undecided',
            'base64 itself (RFC 4648, decode of concatenated unpadded quanta) is assumed (A-b64-01); the whole-body statement follows from the per-call conservation clauses B1-B3 only under that assumption',
            'service.rs is under contract (unit webservice); tonic::body::Body is type-erased, so "the body reaches the inner service behind the decoding adapter" is stated through an uninterpreted erasure function (A-tonic-body-01); GrpcWebService::poll_ready (a forward) is not under contract',
            'GrpcWebLayer::layer / GrpcWebService::new are under contract (the layer installs the translation around the service); CORS is left to the cors layer the user composes with it (tonic-web itself has no CORS code at this commit)',
        ]),
    'C17': dict(
        units=['webclient', 'webserver', 'webservice', 'webtrailers', 'b64cfg'], level='proof',
        witness=[dict(append_to='tonic-web/src/call.rs', module='replay/web_client_chunking.rs', crate='tonic-web', filter='verif_witness_web_client')],
        not_covered=[
            'decode_trailers_frame is under contract (unit webtrailers): its result is the row-by-row reading of the block (rows end at CRLF, split at the FIRST colon, one leading space dropped, appended in order), and lemma_trailers_block_roundtrip shows that the block the server side writes for entries with token names and values without a leading space reads back as exactly those entries; the iterator expressions in it are routed through assumed std contracts (A-core-26..29), HeaderName / HeaderValue::try_from through A-http-18/19',
            'poll_decode (binary mode) is linked in unit webclient as a callee contract and proved in unit webserver (N1/N2) over a general, possibly non-contiguous bytes::Buf (A-bytes-29)',
            'the client layer (GrpcWebClientService::call, its ResponseFuture, the client_request / client_response adapters) is under contract in unit webservice; GrpcWebClientLayer::layer is a constructor call',
        ]),
    'C14': dict(
        witness=[dict(append_to='tonic/src/status.rs', module='replay/status_witness.rs', crate='tonic', filter='verif_witness_status', features=['--features', 'gzip,deflate,zstd'])],
        units=['reconnect', 'errmap', 'clientglue', 'tls'], level='proof',
        not_covered=[
            'Connection::{connect, lazy}, Reconnect::new and Channel::{new, connect} ARE under contract (connect builds an eager channel, lazy a lazy one; a fresh Reconnect is idle, never connected, lazy exactly if asked; Channel::connect only ever yields a channel over an eager connection that was driven to readiness, Channel::new a lazy one - tower Buffer::pair is a handle plus a worker on the service, A-tower-20; that the worker is actually spawned is not stated, nor Channel::{poll_ready, call} and the balance constructors); Connection::new itself (hyper client settings, the tower stack with GrpcTimeout / AddOrigin / UserAgent around Reconnect) is not - a generic tower Layer stack over closures overflows trait resolution in this Verus - nor are the tower Buffer worker in front of it and hyper connection-death detection (poll_ready of the connected service reporting an error is taken as given)',
            'ConnectError -> UNAVAILABLE is under contract (unit errmap, same `dyn Error` model as for C09: A-std-error-01); that the connector wraps its failures in ConnectError (Connector::call: nested async blocks) is not; on the client the mapping is linked to the call dispatcher (unit clientglue, lemma_transport_error_is_what_it_means: a ConnectError in the cause chain of the transport error makes the call fail with UNAVAILABLE)',
            'liveness ("every call completes") is not claimed: the loop in poll_ready has no decreases clause - a connector that always succeeds and dies at once is a legitimate infinite history; what is proved is the state machine for every finite history',
        ]),
    'C09': dict(
        witness=[dict(append_to='tonic/src/status.rs', module='replay/status_witness.rs', crate='tonic', filter='verif_witness_status', features=['--features', 'gzip,deflate,zstd']), dict(append_to='tonic/src/transport/service/grpc_timeout.rs', module='replay/timeout_witness.rs', crate='tonic', filter='verif_witness_timeout', features=['--features', 'gzip,deflate,zstd']), dict(append_to='tonic/src/request.rs', module='replay/request_witness.rs', crate='tonic', filter='verif_witness_request', features=['--features', 'gzip,deflate,zstd'])],
        units=['timeout', 'serverconfig', 'errmap', 'clientglue'], kani=['timeout_digits'], level='proof',
        not_covered=[
            'elapsed (virtual) time: that tokio::time::sleep(d) fires after exactly d and the grid of (caller timeout, configured timeout, handler latency) triples - the timer is an assumed primitive (A-tokio-01)',
            'the mapping of TimeoutExpired to a CANCELLED "Timeout expired" status IS under contract (unit errmap: find_status_in_source_chain, Status::{try_from_error, from_error}, RecoverError ResponseFuture::poll), over a model of `dyn Error` as a finite cause chain of the concrete error types the mapping downcasts to (A-std-error-01); the text "Timeout expired" is the literal of the Display impl found in the tree on each run (A-fmt-03)',
            'Request::set_timeout is under contract (the grpc-timeout entry is the written value; the parse/unwrap never panics: lemma_timeout_text_is_visible); of the wiring only the Server builder (15 setters, layer()) and the Endpoint builder (15 setters: Endpoint::timeout stores the configured timeout, no other setter touches it) are: the hand-over Server.timeout -> MakeSvc.timeout -> GrpcTimeout::new inside serve_internal / MakeSvc::call (async fn, tower builder closures) and tls_config / trace_fn are not',
            'is_ascii_digits (iterator adapter) is discharged by the complete Kani harness kani::timeout_digits for every ASCII string of at most 8 bytes - the Verus shim carries that length as a precondition, proved at the call site - and linked as a callee contract; str::parse::<u64>, str::split_at, Display of integers are assumed std contracts (A-std-parse-01, A-std-str-04, A-fmt-01)',
        ]),
    'C08': dict(
        witness=[dict(append_to='tonic/src/metadata/map.rs', module='replay/metadata_witness.rs', crate='tonic', filter='verif_witness_metadata')],
        units=['metadata', 'reqresp', 'status', 'errmap', 'clientglue', 'serverglue', 'b64cfg'], level='proof',
        not_covered=[
            'value preservation rests on the assumed http::HeaderMap multimap contract (A-http-20..28) and the base64 inverse axioms (A-b64-01: both engines decode padded and unpadded input); the two engine constants of tonic/src/util.rs are checked against that assumption in unit b64cfg (standard alphabet; STANDARD pads, STANDARD_NO_PAD does not; both decode padded and unpadded input)',
            'end-to-end transport of the header block (hyper/h2/hpack)',
            'Keys::next and Values::next are under contract like Iter::next (each key / value is presented on the side its name says); get_all / get_all_bin, GetAll::iter and ValueIter::next are under contract too (every value of the key, in order, never across the partition), for all five key types, and so are get_mut / get_bin_mut, IterMut::next and ValuesMut::next; the entry API is under contract as well (MetadataMap::{entry, entry_bin, generic_entry}, the five AsMetadataKey::entry impls, Entry::{or_insert, or_insert_with, key}, VacantEntry::{key, into_key, insert, insert_entry}, the twelve OccupiedEntry methods, ValueIterMut::next): a typed entry is only ever a handle on a name of its own side and what is written through it is the value given - an http entry is modelled as a handle on the values of one name (A-http-32), so that the map holds those values once the handle is gone is http\'s side (the native witness replay/metadata_witness.rs checks it on examples); the value side is under contract too: Ascii / Binary::{from_shared, is_empty, equals, values_equal}, MetadataValue::{try_from(Bytes), eq, is_empty}, MetadataValue<Ascii>::{len, to_str, as_bytes, from_str}, MetadataValue<Binary>::from_bytes (any bytes make a value - the unwrap cannot fail - whose wire form is their unpadded base64; two values are equal exactly when they denote the same bytes, padded or not); the iterator constructors iter / keys / values / iter_mut / values_mut (each starts with every entry / name of the map), clear, is_empty, reserve and the encoding-agnostic contains_key for all five key types are under contract; ValueDrain::next, the DoubleEndedIterator / IntoIterator impls, capacity, from_static (Binary: a panic plus an unsafe unchecked constructor), the Hash / PartialOrd / cross-type PartialEq impls, MetadataKey FromStr are not under contract',
            'header names are case-insensitive: in unit metadata a key given as text denotes the entry stored under its lower-case form (A-http-26..28), which is how the upper-case crossing of the partition (fixed: 78630d49) shows up; the suffix test of Binary::is_valid_key is linked to text through a proved lemma (an ASCII suffix of the UTF-8 bytes is an ASCII suffix of the text: lemma_ascii_suffix_utf8, from the UTF-8 theory of vstd) and A-core-41 (eq_ignore_ascii_case); the other units look names up by lower-case literals only and keep the simpler contract',
            'the repr(transparent) pointer casts unchecked_from_header_*_ref are trusted (A-tonic-unsafe-01)',
        ]),
    'C05': dict(
        witness=[dict(append_to='tonic/src/codec/compression.rs', module='replay/compression_witness.rs', crate='tonic', filter='verif_witness_compression', features=['--features', 'gzip,deflate,zstd']), dict(append_to='tonic/src/codec/decode.rs', module='replay/decode_witness.rs', crate='tonic', filter='verif_witness_decode', features=['--features', 'gzip,deflate,zstd'])],
        units=['compression', 'decode', 'encode', 'clientglue', 'serverglue'], kani=['cfg_is_enabled', 'cfg_is_empty', 'cfg_enable', 'cfg_pop'], level='proof',
        not_covered=[
            'EnabledCompressionEncodings::{enable,pop,is_enabled,is_empty} use iterator adapters Verus rejects: their contracts are discharged by the complete Kani harnesses kani::cfg_* on the real code (all slot states x all encodings) and linked in the Verus units as callee contracts; into_accept_encoding_header_value (intractable for CBMC: 46 GB) is proved in the Verus unit with `self.inner.into_iter().flatten()` routed through an assumed std contract (A-core-21: the Some entries in slot order)',
            'which of the two configured sets (send vs accept) is consulted where is proved in units clientglue / serverglue; server Grpc::apply_compression_config is under contract there as well (G7: both sets gain exactly the encodings of the given configuration)',
            'completeness of the response-encoding picker (an offered and enabled encoding IS chosen) is not demanded by the statement and not proved (string-literal match gives arm=>equal only)',
            'str::split / str::trim semantics are the uninterpreted comma_tokens (A-std-split-01)',
        ]),
    'C12': dict(
        witness=[dict(append_to='tonic/src/service/interceptor.rs', module='replay/interceptor_witness.rs', crate='tonic', filter='verif_witness_interceptor', features=['--features', 'gzip,deflate,zstd']), dict(append_to='tonic/src/status.rs', module='replay/status_witness.rs', crate='tonic', filter='verif_witness_status', features=['--features', 'gzip,deflate,zstd'])],
        units=['reqresp', 'status', 'b64cfg'], level='proof',
        not_covered=[
            'the Interceptor itself is an arbitrary relation (any function of the request); the inner service is seen through a ghost log of the requests it was called with (A-tower-01)',
            'ResponseBody::{poll_frame,is_end_stream} are under contract (a veto response has no body frames, a forwarded body is forwarded frame by frame); size_hint is not',
            'InterceptorLayer::layer and InterceptedService::new are under contract (the layer installs its interceptor around the service; Clone of the interceptor is assumed to decide the same, A-core-28); the generated client / server constructors (with_interceptor) that call them are tonic-build output and are not',
        ]),
    'C04': dict(
        witness=[dict(append_to='tonic/src/status.rs', module='replay/status_witness.rs', crate='tonic', filter='verif_witness_status', features=['--features', 'gzip,deflate,zstd'])],
        units=['status', 'errmap', 'b64cfg'], kani=['encoding_set', 'code_from_h2_table', 'h2_reason_constants', 'http_status_constants'], level='proof',
        not_covered=[
            'percent-encoding and base64 crates implement their RFCs and are mutually inverse (axioms A-pct-01, A-b64-01); the two engine constants of tonic/src/util.rs are checked against that assumption in unit b64cfg (standard alphabet; STANDARD pads, STANDARD_NO_PAD does not; both decode padded and unpadded input)',
            'percent-encoding itself (that pct_dec inverts pct_enc) is assumed (A-pct-01/02); WHICH bytes tonic asks it to escape is decided: the complete Kani harness kani::encoding_set runs the real percent_encode with the real ENCODING_SET on all 256 bytes',
            'metadata that itself uses one of the three status header names (grpc-status-details-bin is not reserved) is outside lemma_status_roundtrip',
            'h2 reasons FRAME_SIZE_ERROR, STREAM_CLOSED, HTTP_1_1_REQUIRED and unknown ones are left unconstrained (the property names no code for them)',
            'from_error / try_from_error / from_h2_error / from_hyper_error / find_status_in_source_chain are under contract in unit errmap over a model of `dyn Error` (A-std-error-01): a reset stream - an h2 error at the top, or as the direct cause of a hyper error - is mapped by the same table; hyper keep-alive timeouts / cancellations are recognised with the code left open (the property names none)',
        ]),
    'C01': dict(
        witness=[dict(append_to='tonic/src/codec/decode.rs', module='replay/decode_witness.rs', crate='tonic', filter='verif_witness_decode', features=['--features', 'gzip,deflate,zstd']), dict(append_to='tonic/src/codec/encode.rs', module='replay/encode_witness.rs', crate='tonic', filter='verif_witness_encode', features=['--features', 'gzip,deflate,zstd'])],
        units=['wire', 'encode', 'decode', 'compression', 'prostcodec', 'codecbuf'], level='proof',
        not_covered=[
            'gzip/deflate/zstd coders are inverses of their decoders (flate2/zstd FFI): axioms A-compress-01/04; that compress()/decompress() call the coder NAMED by the encoding and append exactly its output is proved on the real bodies (unit compression)',
            'the codec contracts A-codec-01 / A-codec-03 (decode reads the whole payload and never answers Ok(None); encode appends exactly ser(item)) are assumed of an arbitrary user codec in units encode / decode and PROVED for tonic\'s own ProstCodec in unit prostcodec, relative to prost being an inverse pair (A-prost-10) that reads all remaining bytes (A-prost-15)',
            'buffer_size only affects reserve() arguments; capacity is not part of the BytesMut view (A-bytes-reserve)',
            'whole-stream statements are mechanised as inductions over arbitrary finite poll histories whose step relation is the proved postcondition of the real function: lemma_enc_schedule_independent (emitted chunks == wire image of the items consumed, whatever the batching / readiness) and lemma_dec_chunking_independent (bytes received == frames of the messages handed out ++ still unparsed, each message the decoding of its frame, whatever the chunking); the final composition encoder-then-decoder additionally needs the codec to be an inverse pair (assumed, codec side) and is stated at spec level only (lemma_parse_wire, lemma_parse_append)',
        ]),
    'C03': dict(
        witness=[dict(append_to='tonic/src/codec/encode.rs', module='replay/encode_witness.rs', crate='tonic', filter='verif_witness_encode', features=['--features', 'gzip,deflate,zstd'])],
        units=['wire', 'encode', 'status', 'reqresp', 'compression', 'clientglue', 'serverglue', 'prostcodec', 'codecbuf', 'b64cfg'], level='proof',
        not_covered=[
            'the request head (POST, HTTP/2, te, content-type, path under the origin) is proved on the real GrpcConfig::prepare_request (unit clientglue), the response head on the real server Grpc::map_response / Status::into_http (unit serverglue, status); the generated code that picks the path string is not covered',
            'that compress() uses the coder named in grpc-encoding (FFI)', 'HTTP/2 serialisation of heads and trailers (hyper/h2)',
        ]),
    'C06': dict(
        witness=[dict(append_to='tonic/src/codec/decode.rs', module='replay/decode_witness.rs', crate='tonic', filter='verif_witness_decode', features=['--features', 'gzip,deflate,zstd']), dict(append_to='tonic/src/codec/encode.rs', module='replay/encode_witness.rs', crate='tonic', filter='verif_witness_encode', features=['--features', 'gzip,deflate,zstd'])],
        units=['encode', 'decode', 'compression', 'clientglue', 'serverglue'], level='proof',
        not_covered=['server/client plumbing of max_*_message_size from the configuration into Streaming / EncodeBody (straight-line glue, not yet under contract)'],
        ),
    'C07': dict(
        witness=[dict(append_to='tonic/src/codec/decode.rs', module='replay/decode_witness.rs', crate='tonic', filter='verif_witness_decode', features=['--features', 'gzip,deflate,zstd'])],
        units=['decode', 'compression', 'prostcodec', 'codecbuf'], level='proof',
        not_covered=[
            '"every poll completes" is decided only as safety: each loop iteration of Streaming::poll_next either returns or polls the body exactly once; termination under a body that yields frames forever is liveness and not claimed',
            'compressed garbage: decompress() is behind contract A-compress-02 (flate2/zstd are FFI)',
            'undecodable payloads: an arbitrary Decoder is behind codec contract A-codec-01; for the default ProstDecoder the contract is proved (unit prostcodec: a payload prost refuses is an INTERNAL status, never Ok(None), never a panic) relative to prost (A-prost-10/15)',
            'DecodeBuf::{remaining, chunk, advance, copy_to_bytes} are under contract (unit codecbuf: they present exactly the first len bytes and consume them from the front); their assert!s are preconditions, i.e. the obligations of the decoder implementation that calls them',
        ]),
}
