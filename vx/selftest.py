"""thorough tier: deliberate breaks.  Each mutation is a textual change of the REAL source applied in memory (never on
disk); the regenerated unit must turn at least one obligation of the property red.  A mutation that is not noticed is a
weakness of the machinery (exit 2), not a violation."""
import concurrent.futures as cf
import importlib
import os
import re
import sys

import vxlib

# (unit, file, regex, replacement, what it breaks)
MUTATIONS = {
    'C15': [
        ('serverconfig', 'tonic/src/transport/channel/endpoint.rs', r'self\.tls\.clone\(\),\n        \)', 'None,\n        )', 'the connector never gets the TLS configuration of the endpoint'),
        ('serverconfig', 'tonic/src/transport/server/mod.rs', r'tls: Some\(tls_config\.tls_acceptor\(\)\.map_err\(Error::from_source\)\?\),', 'tls: tls_config.tls_acceptor().ok(),', 'a TLS configuration that yields no acceptor gives a server without TLS instead of an error'),
        ('tls', 'tonic/src/request.rs', r'\.and_then\(\|i\| i\.peer_certs\(\)\)', '.and_then(|_i| None)', 'Request::peer_certs never finds the certificates'),
        ('tls', 'tonic/src/transport/channel/service/connector.rs', r'let is_https = uri\.scheme_str\(\) == Some\("https"\);', 'let is_https = tls.is_some() && uri.scheme_str() == Some("https");', 'TLS is used only when a TLS configuration happens to be present'),
        ('tls', 'tonic/src/transport/channel/service/tls.rs', r'if !\(alpn_protocol == Some\(ALPN_H2\) \|\| self\.assume_http2\) \{', 'if !(alpn_protocol == Some(ALPN_H2) || !self.assume_http2) {', 'the http2 opt-out is read the wrong way round'),
        ('tls', 'tonic/src/transport/channel/service/tls.rs', r'let mut roots = RootCertStore::from_iter\(trust_anchors\);', 'let mut roots = RootCertStore::empty(); let _ = trust_anchors;', 'configured trust anchors are dropped'),
        ('tls', 'tonic/src/transport/channel/service/tls.rs', r'config\.alpn_protocols\.push\(ALPN_H2\.into\(\)\);\n        Ok\(Self \{\n            config', 'Ok(Self {\n            config', 'the client does not offer h2'),
        ('tls', 'tonic/src/transport/channel/tls.rs', r'Some\(domain\) => domain,\n            None => uri\.host\(\)\.ok_or_else\(Error::new_invalid_uri\)\?,', 'Some(_domain) => uri.host().ok_or_else(Error::new_invalid_uri)?,\n            None => uri.host().ok_or_else(Error::new_invalid_uri)?,', 'the configured domain name is ignored in favour of the URI host'),
        ('tls', 'tonic/src/transport/server/service/tls.rs', r'let verifier = if client_auth_optional \{', 'let verifier = if !client_auth_optional {', 'client authentication is optional exactly when it should be mandatory'),
        ('tls', 'tonic/src/transport/server/service/tls.rs', r'None => builder\.with_no_client_auth\(\),\n            Some\(cert\) => \{', 'None => builder.with_no_client_auth(),\n            Some(_) if client_auth_optional => builder.with_no_client_auth(),\n            Some(cert) => {', 'an optional client CA is not used at all'),
        ('tls', 'tonic/src/transport/channel/service/connector.rs', r'Err\(HttpsUriWithoutTlsSupport\(\(\)\)\.into\(\)\)', 'Ok(BoxedIo::new(io))', 'an https URI without TLS configuration falls back to plaintext'),
        ('tls', 'tonic/src/transport/server/tls.rs', r'client_auth_optional: optional,', 'client_auth_optional: !optional,', 'the client_auth_optional setter stores the negation'),
        ('tls', 'tonic/src/transport/server/io_stream.rs', r'let io = tls\.accept\(stream\)\.await\?;\s*Ok\(ServerIo::new_tls_io\(io\)\)', 'let _ = tls; Ok(ServerIo::new_io(stream))', 'the accept task skips the handshake and serves the raw connection'),
        ('tls', 'tonic/src/transport/server/io_stream.rs', r'state: tls\.map\(\|tls\| State\(tls, JoinSet::new\(\)\)\),', 'state: None,', 'the configured acceptor is dropped: a TLS server accepts plaintext'),
        ('tls', 'tonic/src/transport/server/io_stream.rs', r'SelectOutput::TlsErr\(e\) => \{\s*tracing::debug!\(error = %e, "tls accept error"\);\s*cx\.waker\(\)\.wake_by_ref\(\);\s*Poll::Pending', 'SelectOutput::TlsErr(e) => {\n                tracing::debug!(error = %e, "tls accept error");\n                return self.poll_next_without_tls(cx);\n                #[allow(unreachable_code)]\n                Poll::Pending', 'after a failed handshake the next connection is served without TLS'),
        ('tls', 'tonic/src/transport/server/service/io.rs', r'req\.extensions_mut\(\)\.insert\(inner\.get_ref\(\)\.clone\(\)\);\s*req\.extensions_mut\(\)\.insert\(inner\);', 'req.extensions_mut().insert(inner.get_ref().clone());', 'requests on a TLS connection do not carry its TlsConnectInfo'),
        ('tls', 'tonic/src/transport/server/service/io.rs', r'Self::TlsIo\(io\) => Self::TlsIo\(io\.clone\(\)\),', 'Self::TlsIo(io) => Self::TlsIo(TlsConnectInfo { inner: io.get_ref().clone(), certs: None }),', 'cloning the connect info (once per request) loses the peer certificates'),
        ('tls', 'tonic/src/transport/server/conn.rs', r'let certs = session\s*\.peer_certificates\(\)\s*\.map\(\|certs\| certs\.to_owned\(\)\.into\(\)\);', 'let certs = None; let _ = session;', 'the handler never sees the peer certificates'),
    ],
    'C20': [
        ('richbuild', 'tonic-types/src/richer_error/error_details/mod.rs', r'request_info: Some\(RequestInfo::new\(request_id, serving_data\)\),', 'request_info: Some(RequestInfo::new(serving_data, request_id)),', 'with_request_info swaps the two texts'),
        ('richbuild', 'tonic-types/src/richer_error/std_messages/bad_request.rs', r'self\.field_violations\.append\(&mut vec!\[FieldViolation \{', 'self.field_violations = (vec![FieldViolation {', 'adding a violation forgets the earlier ones'),
        ('richbuild', 'tonic-types/src/richer_error/error_details/mod.rs', r'return !help\.links\.is_empty\(\);', 'return help.links.is_empty();', 'has_help_links answers the opposite'),
        ('richbuild', 'tonic-types/src/richer_error/error_details/mod.rs', r'self\.debug_info = Some\(DebugInfo::new\(stack_entries, detail\)\);\n        self', 'self.debug_info = Some(DebugInfo::new(stack_entries, detail));\n        self.error_info = None;\n        self', 'setting the debug info drops the error info'),
        ('richbuild', 'tonic-types/src/richer_error/std_messages/help.rs', r'(pub fn with_link[\s\S]*?)description: description\.into\(\),\n                url: url\.into\(\),', r'\1description: url.into(),\n                url: description.into(),', 'a help link is built with description and url exchanged'),
        ('richerror', 'tonic-types/src/richer_error/mod.rs', r'code: code as i32,', 'code: 2,', 'embedded google.rpc.Status does not carry the outer code'),
        ('richerror', 'tonic-types/src/richer_error/mod.rs', r'message: message\.to_owned\(\),', 'message: String::new(),', 'embedded google.rpc.Status loses the message'),
        ('richerror', 'tonic-types/src/richer_error/mod.rs', r'conv_details\.push\(debug_info\.into_any\(\)\);', 'let _ = debug_info;', 'a set loses its debug info on the way out'),
        ('richerror', 'tonic-types/src/richer_error/mod.rs', r'Help::TYPE_URL => \{\s*details\.push\(Help::from_any_ref\(any\)\?\.into\(\)\);', 'Help::TYPE_URL => {\n                    let _ = Help::from_any_ref(any)?;', 'help details dropped from the decoded list'),
        ('richerror', 'tonic-types/src/richer_error/std_messages/bad_request.rs', r'field: value\.field,\s*description: value\.description,', 'field: value.description,\n            description: value.field,', 'field and description of a violation swapped when decoding'),
        ('richerror', 'tonic-types/src/richer_error/std_messages/retry_info.rs', r'Ok\(duration\) => duration,', 'Ok(duration) => prost_types::Duration { seconds: duration.seconds, nanos: 0 },', 'sub-second part of the retry delay dropped'),
        ('richerror', 'tonic-types/src/richer_error/std_messages/help.rs', r'type_url: Help::TYPE_URL\.to_string\(\),', 'type_url: "type.googleapis.com/google.rpc.BadRequest".to_string(),', 'help packed under the type URL of another kind'),
        ('richerror', 'tonic-types/src/richer_error/mod.rs', r'details\.quota_failure = Some\(QuotaFailure::from_any_ref\(any\)\?\);', 'details.quota_failure = QuotaFailure::from_any_ref(any).ok();', 'an undecodable quota failure is swallowed instead of reported'),
        ('richerror', 'tonic-types/src/richer_error/std_messages/quota_failure.rs', r'"type\.googleapis\.com/google\.rpc\.QuotaFailure"', '"type.googleapis.com/google.rpc.ErrorInfo"', 'two kinds share a type URL'),
        ('richerror', 'tonic-types/src/richer_error/mod.rs', r'if any\.type_url\.as_str\(\) == DebugInfo::TYPE_URL \{', 'if any.type_url.as_str() != DebugInfo::TYPE_URL {', 'getter looks at the wrong details'),
        ('richerror', 'tonic-types/src/richer_error/mod.rs', r'ErrorDetail::ResourceInfo\(res_info\) => \{\s*conv_details\.push\(res_info\.into_any\(\)\);', 'ErrorDetail::ResourceInfo(res_info) => {\n                    let _ = res_info;', 'a list element is not written'),
        ('richerror', 'tonic-types/src/richer_error/std_messages/retry_info.rs', r'if delay > RetryInfo::MAX_RETRY_DELAY \{', 'if delay < RetryInfo::MAX_RETRY_DELAY {', 'RetryInfo::new clamps the wrong side'),
        ('richerror', 'tonic-types/src/richer_error/std_messages/debug_info.rs', r'stack_entries: debug_info\.stack_entries,', 'stack_entries: Vec::new(),', 'stack entries lost'),
    ],
    'C14': [
        ('errmap', 'tonic/src/transport/error.rs', r'self\.inner\.source = Some\(source\.into\(\)\);', 'let _dropped: Source = source.into();', 'the transport error drops its cause: a ConnectError inside it can no longer be found'),
        ('errmap', 'tonic/src/transport/error.rs', r'Error::new\(Kind::Transport\)\.with\(source\)', 'Error::new(Kind::Transport)', 'from_source forgets the error it wraps'),
        ('reconnect', 'tonic/src/transport/channel/mod.rs', r'let svc = Connection::connect\(connector, endpoint\)\s*\.await\s*\.map_err\(super::Error::from_source\)\?;', 'let svc = Connection::lazy(connector, endpoint);', 'Channel::connect does not connect: an initial failure is parked instead of reported'),
        ('reconnect', 'tonic/src/transport/channel/mod.rs', r'let svc = Connection::lazy\(connector, endpoint\);\n        let \(svc, worker\) = Buffer::pair\(svc, buffer_size\);', 'let svc = Connection::new(connector, endpoint, false);\n        let (svc, worker) = Buffer::pair(svc, buffer_size);', 'Channel::new builds an eager service that was never driven to readiness'),
        ('reconnect', 'tonic/src/transport/channel/service/connection.rs', r'Self::new\(connector, endpoint, false\)\.ready_oneshot\(\)\.await', 'Self::new(connector, endpoint, true).ready_oneshot().await', 'Channel::connect builds a lazy channel (an initial failure is parked instead of reported)'),
        ('reconnect', 'tonic/src/transport/channel/service/reconnect.rs', r'has_been_connected: false,', 'has_been_connected: true,', 'a fresh eager channel behaves as if it had been connected before'),
        ('clientglue', 'tonic/src/client/grpc.rs', r'\.map_err\(Status::from_error_generic\)\?;', '.map_err(|_e| Status::unknown("transport"))?;', 'a transport failure is always reported as UNKNOWN'),
        ('errmap', 'tonic/src/status.rs', r'return Some\(Status::unavailable\(connect\.to_string\(\)\)\);', 'return Some(Status::cancelled(connect.to_string()));', 'a connect failure is not UNAVAILABLE'),
        ('errmap', 'tonic/src/status.rs', r'source = err\.source\(\);', 'source = None;', 'only the outermost error is inspected'),
        ('reconnect', 'tonic/src/transport/channel/service/reconnect.rs', r'if !\(self\.has_been_connected \|\| self\.is_lazy\) \{', 'if !(self.has_been_connected && self.is_lazy) {', 'lazy channel reports its first failure instead of parking it'),
        ('reconnect', 'tonic/src/transport/channel/service/reconnect.rs', r'(Poll::Ready\(Err\(_\)\) => \{\s*trace!\("poll_ready; error"\);\s*)state = State::Idle;', r'\1return Poll::Ready(Ok(()));', 'dead connection reported as ready'),
        ('reconnect', 'tonic/src/transport/channel/service/reconnect.rs', r'if let Some\(error\) = self\.error\.take\(\) \{\s*tracing::debug!\("error: \{\}", error\);', 'if let Some(error) = self.error.take() {\n            self.state = State::Idle;', 'handing out the parked error also drops the connection'),
    ],
    'C01': [
        ('prostcodec', 'tonic/src/codec/prost.rs', r'\.map\(Option::Some\)', '.map(|_m| None)', 'every decoded message is dropped (Ok(None))'),
        ('decode', 'tonic/src/codec/decode.rs', r'frame\.map_data\(\|mut buf\| buf\.copy_to_bytes\(buf\.remaining\(\)\)\)', 'frame.map_data(|mut buf| buf.copy_to_bytes(buf.chunk().len()))', 'only the first segment of a non-contiguous DATA buffer reaches the decoder'),
        ('decode', 'tonic/src/codec/decode.rs', r'let len = self\.buf\.get_u32\(\) as usize;', 'let len = (self.buf.get_u32() as usize) & 0x00ff_ffff;', 'length prefix read modulo 2^24'),
        ('encode', 'tonic/src/codec/encode.rs', r'buf\.reserve\(HEADER_SIZE\);\s*unsafe \{\s*buf\.advance_mut\(HEADER_SIZE\);\s*\}', 'buf.reserve(HEADER_SIZE);\n    unsafe {\n        buf.advance_mut(HEADER_SIZE - 1);\n    }', 'header slot one byte short'),
        ('encode', 'tonic/src/codec/encode.rs', r'buf\.put_u32\(len as u32\);', 'buf.put_u32((len / 256) as u32);', 'length prefix is not the payload length'),
        ('decode', 'tonic/src/codec/decode.rs', r'if self\.buf\.remaining\(\) < HEADER_SIZE \{', 'if self.buf.remaining() < HEADER_SIZE - 1 {', 'header read one byte early'),
        ('encode', 'tonic/src/codec/encode.rs', r'buf\.put_u8\(compression_encoding\.is_some\(\) as u8\);', 'buf.put_u8(compression_encoding.is_none() as u8);', 'compressed flag polarity'),
    ],
    'C02': [
        ('tbody', 'tonic/src/body.rs', r'if body\.is_end_stream\(\) \{\n            return Self::empty\(\);\n        \}', 'if !body.is_end_stream() {\n            return Self::empty();\n        }', 'every body that still has frames is replaced by the empty body'),
        ('tbody', 'tonic/src/body.rs', r'return body\.take\(\)\.unwrap\(\);', 'let _ = body.take(); return Self::empty();', 'a tonic Body handed to Body::new loses its frames'),
        ('tbody', 'tonic/src/body.rs', r'Kind::Empty => Poll::Ready\(None\),', 'Kind::Empty => Poll::Pending,', 'an empty body never ends'),
        ('tbody', 'tonic/src/body.rs', r'Kind::Empty => true,\s*Kind::Wrap\(body\) => body\.is_end_stream\(\),', 'Kind::Empty => true,\n            Kind::Wrap(_) => true,', 'a wrapping body always claims to be at its end'),
        ('errmap', 'tonic/src/status.rs', r'code: status\.code,\n                message: status\.message\.clone\(\),', 'code: Code::Unknown,\n                message: status.message.clone(),', 'a status found in the cause chain loses its code'),
        ('errmap', 'tonic/src/status.rs', r'metadata: status\.metadata\.clone\(\),', 'metadata: MetadataMap::new(),', 'a status found in the cause chain loses its metadata'),
        ('decode', 'tonic/src/codec/decode.rs', r'Some\(Err\(e\)\) => Err\(e\),\s*None => Ok\(None\),', 'Some(Err(_)) => Ok(None),\n            None => Ok(None),', 'message() swallows the error status'),
        ('decode', 'tonic/src/codec/decode.rs', r'(pub async fn trailers[\s\S]*?)if let Some\(trailers\) = self\.inner\.trailers\.take\(\) \{', r'\1if let Some(trailers) = self.inner.trailers.replace(HeaderMap::new()) {', 'cached trailers handed out again and again'),
        ('clientglue', 'tonic/src/client/grpc.rs', r'self\.config\.send_compression_encodings,\s*self\.config\.max_encoding_message_size,', 'None,\n                    self.config.max_encoding_message_size,', 'request body built without the configured compression'),
        ('clientglue', 'tonic/src/client/grpc.rs', r'if status\.code\(\) != Code::Ok \{', 'if status.code() == Code::Ok {', 'trailers-only error status treated as success'),
        ('clientglue', 'tonic/src/client/grpc.rs', r'\.insert\(TE, HeaderValue::from_static\("trailers"\)\);', '.insert(TE, HeaderValue::from_static("trailer"));', 'te header misspelt'),
        ('clientglue', 'tonic/src/client/grpc.rs', r'self\.config\.max_decoding_message_size,\n', 'self.config.max_encoding_message_size,\n', 'decoder limited by the encoding limit'),
        ('clientglue', 'tonic/src/client/grpc.rs', r'http::Method::POST,', 'http::Method::GET,', 'call sent as GET'),
        ('clientglue', 'tonic/src/client/grpc.rs', r'status\.metadata_mut\(\)\.merge\(parts\.clone\(\)\);', '', 'early error loses the initial metadata'),
        ('clientglue', 'tonic/src/client/grpc.rs', r'parts\.merge\(trailers\);', 'let _ = trailers;', 'trailing metadata dropped from a unary response'),
        ('clientglue', 'tonic/src/client/grpc.rs', r'Status::internal\("Missing response message\."\)', 'Status::unknown("Missing response message.")', 'missing response message reported with another code'),
        ('serverglue', 'tonic/src/server/grpc.rs', r'req\.metadata_mut\(\)\.merge\(trailers\);', 'let _ = trailers;', 'request trailers dropped from the metadata the handler sees'),
        ('serverglue', 'tonic/src/server/grpc.rs', r'Status::internal\("Missing request message\."\)', 'Status::ok("Missing request message.")', 'missing request message reported as OK'),
        ('serverglue', 'tonic/src/server/grpc.rs', r'let compression_override = compression_override_from_response\(&response\);\n\n        self\.map_response\(\n            response,\n            accept_encoding,\n            compression_override,', 'let compression_override = compression_override_from_response(&response);\n\n        self.map_response(\n            response,\n            accept_encoding,\n            SingleMessageCompressionOverride::default(),', 'per-response compression override ignored'),
        ('serverglue', 'tonic/src/server/grpc.rs', r'let response = t!\(response\);\n\n        let \(mut parts, body\) = response\.into_http\(\)\.into_parts\(\);', 'let response = t!(response);\n\n        let (mut parts, body) = response.into_http().into_parts();\n        parts.headers.remove("grpc-status-details-bin");', 'a user metadata key removed from the response'),
        ('clientglue', 'tonic/src/client/grpc.rs', r'if let Some\(trailers\) = body\.trailers\(\)\.await\? \{', 'if let Ok(Some(trailers)) = body.trailers().await {', 'error status in the trailers of a unary call ignored'),
    ],
    'C03': [
        ('encode', 'tonic/src/codec/encode.rs', r'fn is_end_stream\(&self\) -> bool \{\s*self\.state\.is_end_stream\s*\}', 'fn is_end_stream(&self) -> bool {\n        !self.state.is_end_stream\n    }', 'the body claims to be over before its trailers went out'),
        ('prostcodec', 'tonic/src/codec/prost.rs', r'item\.encode\(buf\)\s*\.expect\("Message only errors if not enough space"\);', 'let _ = &item;', 'the encoder writes nothing'),
        ('encode', 'tonic/src/codec/encode.rs', r'error: None,\s*role: Role::Server,', 'error: None,\n                role: Role::Client,', 'server bodies built in the client role: no trailers'),
        ('serverglue', 'tonic/src/server/grpc.rs', r'\.insert\(http::header::CONTENT_TYPE, GRPC_CONTENT_TYPE\);', '.insert(http::header::CONTENT_TYPE, http::HeaderValue::from_static("application/json"));', 'response content-type'),
        ('encode', 'tonic/src/codec/encode.rs', r'Role::Client => None,', 'Role::Client => Some(Status::ok("").to_header_map()),', 'client body emits trailers'),
        ('encode', 'tonic/src/codec/encode.rs', r'if self\.is_end_stream \{\s*return None;\s*\}', '', 'trailers can be emitted twice'),
    ],
    'C04': [
        ('errmap', 'tonic/src/status.rs', r'let code = Status::code_from_h2\(h2_err\);', 'let code = Code::Internal;', 'a reset seen through hyper is always INTERNAL'),
        ('status', 'tonic/src/status.rs', r"\(b'1', b'3'\) => Code::Internal,", "(b'1', b'3') => Code::Unavailable,", 'code table entry 13'),
        ('status', 'tonic/src/status.rs', r'http::StatusCode::NOT_FOUND => Code::Unimplemented,', 'http::StatusCode::NOT_FOUND => Code::NotFound,', 'HTTP 404 mapping'),
        ('status', 'tonic/src/status.rs', r'Some\(h2::Reason::REFUSED_STREAM\) => Code::Unavailable,', 'Some(h2::Reason::REFUSED_STREAM) => Code::Internal,', 'h2 REFUSED_STREAM mapping'),
    ],
    'C05': [
        ('compression', 'tonic/src/codec/compression.rs', r'b"identity" => Ok\(None\),', 'b"identity" => Ok(Some(CompressionEncoding::Gzip)),', 'identity request treated as gzip'),
        ('decode', 'tonic/src/codec/decode.rs', r'if self\.encoding\.is_some\(\) \{\s*self\.encoding\s*\} else \{', 'if true { self.encoding } else {', 'flag 1 without negotiated encoding accepted'),
        ('serverglue', 'tonic/src/server/grpc.rs', r'(fn request_encoding_if_supported[\s\S]*?)self\.accept_compression_encodings,', r'\1self.send_compression_encodings,', 'request encoding checked against the SEND set'),
        ('serverglue', 'tonic/src/server/grpc.rs', r'(pub async fn streaming<S, B>[\s\S]*?)self\.send_compression_encodings,', r'\1self.accept_compression_encodings,', 'response encoding picked from the ACCEPT set'),
        ('serverglue', 'tonic/src/server/grpc.rs', r'if let Some\(encoding\) = accept_encoding \{\s*// Set the content encoding', 'if let Some(encoding) = None::<CompressionEncoding> {\n            // Set the content encoding', 'chosen encoding not announced'),
        ('compression', 'tonic/src/codec/compression.rs', r"value\.put_u8\(b','\);", "value.put_u8(b';');", 'accept-encoding list separated by semicolons'),
        ('compression', 'tonic/src/codec/compression.rs', r'value\.put_slice\(b"identity"\);', 'value.put_slice(b"gzip");', 'identity not advertised'),
    ],
    'C06': [
        ('clientglue', 'tonic/src/client/grpc.rs', r'max_encoding_message_size: self\.config\.max_encoding_message_size,\n                max_decoding_message_size: self\.config\.max_decoding_message_size,', 'max_encoding_message_size: self.config.max_decoding_message_size,\n                max_decoding_message_size: self.config.max_encoding_message_size,', 'a cloned client swaps its two size limits'),
        ('decode', 'tonic/src/codec/mod.rs', r'const DEFAULT_MAX_RECV_MESSAGE_SIZE: usize = 4 \* 1024 \* 1024;', 'const DEFAULT_MAX_RECV_MESSAGE_SIZE: usize = 4 * 1000 * 1000;', 'default decoding limit is 4 MB instead of 4 MiB'),
        ('decode', 'tonic/src/codec/decode.rs', r'if len > limit \{', 'if len >= limit {', 'limit off by one (decoder)'),
        ('encode', 'tonic/src/codec/encode.rs', r'if len > limit \{', 'if len >= limit {', 'limit off by one (encoder)'),
        ('decode', 'tonic/src/codec/decode.rs', r'(\n\s*)self\.buf\.reserve\(len\);', r'', 'n/a'),
    ],
    'C07': [
        ('decode', 'tonic/src/codec/decode.rs', r'Err\(err\) => self\.inner\.state = State::Error\(Some\(err\)\),', 'Err(_err) => {}', 'a failing end-of-stream status is dropped and the loop spins on the ended body'),
        ('codecbuf', 'tonic/src/codec/buffer.rs', r'if ret\.len\(\) > self\.len \{', 'if ret.len() < self.len {', 'the decoder is shown bytes beyond the frame'),
        ('codecbuf', 'tonic/src/codec/buffer.rs', r'self\.buf\.advance\(cnt\);\n        self\.len -= cnt;', 'self.buf.advance(cnt);', 'advance forgets to shrink the window'),
        ('prostcodec', 'tonic/src/codec/prost.rs', r'Status::internal\(error\.to_string\(\)\)', 'Status::unknown(error.to_string())', 'a protobuf parse error is reported as UNKNOWN'),
        ('decode', 'tonic/src/codec/decode.rs', r'Err\(Status::internal\("Unexpected EOF decoding stream\."\)\)', 'Ok(None)', 'a truncated stream ends cleanly'),
        ('decode', 'tonic/src/codec/decode.rs', r'f => \{\s*trace!\("unexpected compression flag"\);', 'f if f > 2 => {\n                    trace!("unexpected compression flag");', 'flag 2 is not refused (no arm: must be at least undecided)'),
        ('decode', 'tonic/src/codec/decode.rs', r'self\.decompress_buf\.clear\(\);\n', '', 'stale decompressed bytes of the previous message are kept'),
        ('decode', 'tonic/src/codec/decode.rs', r'if self\.buf\.remaining\(\) < len \|\| self\.buf\.len\(\) < len \{', 'if self.buf.remaining() + 1 < len || self.buf.len() + 1 < len {', 'a message is handed out one byte early'),
        ('decode', 'tonic/src/codec/decode.rs', r'self\.inner\.state = State::Error\(None\);\s*return Poll::Ready\(Some\(Err\(status\)\)\);\s*\}\s*\}\s*\n\s*match ready!', 'return Poll::Ready(Some(Err(status)));\n                }\n            }\n\n            match ready!', 'decode error does not enter the error state'),
    ],
    'C08': [
        ('metadata', 'tonic/src/metadata/map.rs', r'pub fn clear\(&mut self\) \{\n        self\.headers\.clear\(\);', 'pub fn clear(&mut self) {\n        self.headers.reserve(0);', 'clear leaves the entries in place'),
        ('metadata', 'tonic/src/metadata/map.rs', r'map\.headers\.contains_key\(\*self\)', 'map.headers.contains_key("te")', 'contains_key(&str) asks about another name'),
        ('metadata', 'tonic/src/metadata/encoding.rs', r'\(Err\(_\), Err\(_\)\) => true,', '(Err(_), Err(_)) => false,', 'two undecodable binary values never compare equal'),
        ('metadata', 'tonic/src/metadata/encoding.rs', r'Self::from_bytes\(value\.as_ref\(\)\)', 'HeaderValue::from_maybe_shared(value).map_err(|_| InvalidMetadataValueBytes::new())', 'an owned binary buffer is written raw instead of base64'),
        ('metadata', 'tonic/src/metadata/value.rs', r'VE::values_equal\(&self\.inner, &other\.inner\)', 'self.inner == other.inner', 'binary values compare by their wire text (padding-sensitive)'),
        ('metadata', 'tonic/src/metadata/encoding.rs', r'\.eq_ignore_ascii_case\(b"-bin"\)', '.eq_ignore_ascii_case(b"_bin")', 'binary keys are told apart by another suffix'),
        ('metadata', 'tonic/src/metadata/encoding.rs', r'key\.len\(\) >= 4 && key\[key\.len\(\) - 4\.\.\]', 'key.len() >= 3 && key[key.len() - 4..]', 'the suffix test of a three-byte key indexes before the start'),
        ('metadata', 'tonic/src/metadata/map.rs', r"-> OccupiedEntry<'a, VE> \{\n        OccupiedEntry \{\n            inner: self\.inner\.insert_entry", "-> OccupiedEntry<'a, Ascii> {\n        OccupiedEntry {\n            inner: self.inner.insert_entry", 'insert_entry hands out an ASCII handle whatever the encoding'),
        ('metadata', 'tonic/src/metadata/map.rs', r'if !VE::is_valid_key\(self\) \{\n                return Err\(InvalidMetadataKey::new\(\)\);\n            \}\n\n            let key = http::header::HeaderName::from_bytes\(self\.as_bytes\(\)\)\n                \.map_err\(\|_\| InvalidMetadataKey::new\(\)\)\?;\n            let entry', 'if false {\n                return Err(InvalidMetadataKey::new());\n            }\n\n            let key = http::header::HeaderName::from_bytes(self.as_bytes())\n                .map_err(|_| InvalidMetadataKey::new())?;\n            let entry', 'entry(&str) hands out a handle on a key of the other side'),
        ('metadata', 'tonic/src/metadata/map.rs', r'pub fn append\(&mut self, value: MetadataValue<VE>\) \{\n        self\.inner\.append\(value\.inner\)', 'pub fn append(&mut self, value: MetadataValue<VE>) {\n        self.inner.insert(value.inner);', 'appending through an entry replaces the values already there'),
        ('metadata', 'tonic/src/metadata/map.rs', r'MetadataValue::unchecked_from_mut_header_value_ref\(self\.inner\.insert\(value\.inner\)\)', 'MetadataValue::unchecked_from_mut_header_value_ref(self.inner.insert(HeaderValue::from_static("")))', 'a vacant entry writes an empty value instead of the given one'),
        ('metadata', 'tonic/src/metadata/map.rs', r'(impl<\'a> Iterator for ValuesMut<\'a> \{[\s\S]*?)ValueRefMut::Ascii\(MetadataValue::unchecked_from_mut_header_value_ref\(value\)\)\n            \} else \{\n                ValueRefMut::Binary', r'\1ValueRefMut::Binary(MetadataValue::unchecked_from_mut_header_value_ref(value))\n            } else {\n                ValueRefMut::Ascii', 'values_mut presents every value on the wrong side'),
        ('metadata', 'tonic/src/metadata/map.rs', r'(pub fn get_all_bin<K>[\s\S]*?)inner: key\.get_all\(self\),', r'\1inner: None,', 'get_all_bin never finds anything'),
        ('metadata', 'tonic/src/metadata/map.rs', r'Some\(map\.headers\.get_all\(self\.inner\)\)', 'Some(map.headers.get_all("te"))', 'get_all of an owned key reads another header'),
        ('b64cfg', 'tonic/src/util.rs', r'(STANDARD: GeneralPurpose[\s\S]*?)DecodePaddingMode::Indifferent', r'\1DecodePaddingMode::RequireCanonical', 'padded-only decoding: unpadded binary metadata from a peer is refused'),
        ('b64cfg', 'tonic/src/util.rs', r'\.with_encode_padding\(false\)', '.with_encode_padding(true)', 'the unpadded engine pads'),
        ('metadata', 'tonic/src/metadata/map.rs', r'(impl<\'a> Iterator for Values<\'a> \{[\s\S]*?)if Ascii::is_valid_key\(name\.as_str\(\)\) \{', r'\1if !Binary::is_valid_key(name.as_str()) && name.as_str().len() > 3 {', 'Values presents short-named ASCII entries as binary'),
        ('metadata', 'tonic/src/metadata/map.rs', r'(impl<\'a> Iterator for Keys<\'a> \{[\s\S]*?)KeyRef::Ascii\(MetadataKey::unchecked_from_header_name_ref\(key\)\)\n            \} else \{\n                KeyRef::Binary', r'\1KeyRef::Binary(MetadataKey::unchecked_from_header_name_ref(key))\n            } else {\n                KeyRef::Ascii', 'Keys presents every key on the wrong side'),
        ('metadata', 'tonic/src/metadata/map.rs', r'self\.headers\.extend\(other\.headers\);', 'self.headers = other.headers;', 'merge drops the existing entries'),
        ('metadata', 'tonic/src/metadata/encoding.rs', r'crate::util::base64::STANDARD_NO_PAD\.encode\(value\);', 'crate::util::base64::STANDARD_NO_PAD.encode(&b"x"[..]);', 'binary value replaced before encoding'),
        ('metadata', 'tonic/src/metadata/map.rs', r'HeaderName::from_static\("grpc-message-type"\),', 'HeaderName::from_static("grpc-message-typo"),', 'a reserved name misspelt in the table'),
    ],
    'C09': [
        ('timeout', 'tonic/src/transport/service/grpc_timeout.rs', r'(pub\(crate\) fn new\(inner: S, server_timeout: Option<Duration>\) -> Self \{\s*Self \{\s*inner,\s*)server_timeout,', r'\1server_timeout: None,', 'the timeout layer forgets the configured timeout'),
        ('errmap', 'tonic/src/status.rs', r'return Some\(Status::cancelled\(timeout\.to_string\(\)\)\);', 'return Some(Status::unavailable(timeout.to_string()));', 'an expired deadline reported with another code'),
        ('errmap', 'tonic/src/status.rs', r'write!\(f, "Timeout expired"\)', 'write!(f, "Timed out")', 'the cut-off status no longer reads Timeout expired'),
        ('errmap', 'tonic/src/service/recover_error.rs', r'status\.into_http::<\(\)>\(\)', 'Status::new(crate::Code::Unknown, "").into_http::<()>()', 'the recovered status is replaced on its way out of the stack'),
        ('timeout', 'tonic/src/transport/service/grpc_timeout.rs', r'let shorter_duration = std::cmp::min\(header, server\);', 'let shorter_duration = std::cmp::max(header, server);', 'longest deadline wins'),
        ('timeout', 'tonic/src/transport/service/grpc_timeout.rs', r'if timeout_value\.len\(\) > 8 \{', 'if timeout_value.len() > 9 {', 'nine digits accepted'),
        ('timeout', 'tonic/src/request.rs', r"try_format\(duration, 'm', \|d\| d\.as_millis\(\)\)", "try_format(duration, 'm', |d| d.as_micros())", 'millisecond unit written with microsecond value'),
        ('timeout', 'tonic/src/metadata/map.rs', r'GRPC_TIMEOUT_HEADER: &str = "grpc-timeout";', 'GRPC_TIMEOUT_HEADER: &str = "grpc-timeouts";', 'timeout written under another header name'),
        ('serverconfig', 'tonic/src/transport/channel/endpoint.rs', r'timeout: Some\(dur\),\s*\.\.self', 'connect_timeout: Some(dur),\n            ..self', 'Endpoint::timeout sets the connect timeout instead'),
        ('serverconfig', 'tonic/src/transport/server/mod.rs', r'timeout: self\.timeout,', 'timeout: self.tcp_keepalive,', 'layer() loses the configured timeout'),
        ('serverconfig', 'tonic/src/transport/server/mod.rs', r'timeout: Some\(timeout\),', 'timeout: None,', 'timeout() setter stores nothing'),
    ],
    'C16': [
        ('b64cfg', 'tonic-web/src/lib.rs', r'DecodePaddingMode::Indifferent', 'DecodePaddingMode::RequireNone', 'grpc-web-text bodies with padding are refused'),
        ('webserver', 'tonic-web/src/call.rs', r"acc\.push\(b':'\);", "acc.push(b'=');", 'trailer row separator'),
        ('webserver', 'tonic-web/src/call.rs', r'acc\.put_slice\(value\.as_bytes\(\)\);', 'acc.put_slice(key.as_ref());', 'trailer value replaced by its name'),
        ('webserver', 'tonic-web/src/call.rs', r'frame\.put_u8\(GRPC_WEB_TRAILERS_BIT\);', 'frame.put_u8(0);', 'trailers frame without the 0x80 flag'),
        ('webserver', 'tonic-web/src/call.rs', r'\(self\.buf\.len\(\) / 4\) \* 4', '(self.buf.len() / 3) * 3', 'base64 carry not a multiple of four'),
        ('webserver', 'tonic-web/src/call.rs', r'Direction::Decode => self\.poll_decode\(cx\),\s*Direction::Encode => self\.poll_encode\(cx\),', 'Direction::Decode => self.poll_encode(cx),\n            Direction::Encode => self.poll_decode(cx),', 'request bodies encoded and response bodies decoded'),
        ('webservice', 'tonic-web/src/service.rs', r'case: Case::immediate\(StatusCode::METHOD_NOT_ALLOWED\)', 'case: Case::immediate(StatusCode::BAD_REQUEST)', 'non-POST grpc-web answered 400'),
        ('webservice', 'tonic-web/src/service.rs', r'RequestKind::Other\(Version::HTTP_2\) =>', 'RequestKind::Other(Version::HTTP_11) =>', 'HTTP/1.1 passes through instead of HTTP/2'),
        ('webservice', 'tonic-web/src/service.rs', r'\.insert\(header::CONTENT_TYPE, GRPC_CONTENT_TYPE\);', '.remove(header::CONTENT_TYPE);', 'inner service does not get the gRPC content-type'),
        ('webservice', 'tonic-web/src/call.rs', r'Some\(GRPC_WEB_TEXT\) \| Some\(GRPC_WEB_TEXT_PROTO\)\n', 'Some(GRPC_WEB_TEXT)\n', 'grpc-web-text+proto not recognised as grpc-web'),
        ('webservice', 'tonic-web/src/service.rs', r'HeaderValue::from_static\(encoding\.to_content_type\(\)\)', 'HeaderValue::from_static(Encoding::None.to_content_type())', 'text response labelled binary'),
        ('webservice', 'tonic-web/src/call.rs', r'Some\(GRPC_WEB_TEXT_PROTO\) \| Some\(GRPC_WEB_TEXT\) => Encoding::Base64', 'Some(GRPC_WEB_TEXT_PROTO) | Some(GRPC_WEB) => Encoding::Base64', 'binary content-type decoded as base64'),
        ('webservice', 'tonic-web/src/service.rs', r'future: self\.inner\.call\(coerce_request\(req, encoding\)\),\s*accept,', 'future: self.inner.call(coerce_request(req, encoding)),\n                        accept: encoding,', 'response flavour taken from the request content-type instead of accept'),
    ],
    'C19': [
        ('reflsvc', 'tonic-reflection/src/server/v1.rs', r'MessageRequest::FileByFilename\(s\) => state\.file_by_filename\(&s\)', 'MessageRequest::FileByFilename(s) => state.symbol_by_name(&s)', 'a file-by-name request is answered by the symbol lookup'),
        ('reflsvc', 'tonic-reflection/src/server/v1.rs', r'valid_host: req\.host\.clone\(\),', 'valid_host: String::new(),', 'the reply does not echo the host'),
        ('reflsvc', 'tonic-reflection/src/server/v1alpha.rs', r'state\.symbol_by_name\(&s\)', 'state.file_by_filename(&s)', 'v1alpha answers symbol requests differently from v1'),
        ('reflsvc', 'tonic-reflection/src/server/v1.rs', r'name: s\.clone\(\)', 'name: String::new()', 'the service list carries empty names'),
        ('reflsvc', 'tonic-reflection/src/server/v1alpha.rs', r'None => Err\(Status::invalid_argument\("invalid MessageRequest"\)\),', 'None => Err(Status::not_found("invalid MessageRequest")),', 'a request without a MessageRequest is reported as NOT_FOUND'),
        ('reflection', 'tonic-reflection/src/server/mod.rs', r'self\.process_message\(fd\.clone\(\), &message_name, nested\)\?;', 'self.process_message(fd.clone(), prefix, nested)?;', 'nested messages indexed under the outer prefix'),
        ('reflection', 'tonic-reflection/src/server/mod.rs', r'extract_name\(&enum_name, "enum value", value\.name\.as_ref\(\)\)\?', 'extract_name(prefix, "enum value", value.name.as_ref())?', 'enum values indexed without the enum name'),
        ('reflection', 'tonic-reflection/src/server/mod.rs', r'extract_name\(&service_name, "method", method\.name\.as_ref\(\)\)\?', 'extract_name(prefix, "method", method.name.as_ref())?', 'methods indexed without the service name'),
        ('reflection', 'tonic-reflection/src/server/mod.rs', r'if state\.files\.contains_key\(&name\) \{\s*continue;\s*\}', 'if false {\n                    continue;\n                }', 'a duplicate file registration replaces the first'),
        ('reflection', 'tonic-reflection/src/server/mod.rs', r'self\.file_descriptor_sets\.push\(file_descriptor_set\);', 'self.file_descriptor_sets = vec![file_descriptor_set];', 'registering a set forgets the ones registered before'),
        ('reflection', 'tonic-reflection/src/server/mod.rs', r'self\.file_descriptor_sets,\n                self\.use_all_service_names,\n            \)\?\),\n        \)\)\n    \}\n\n    /// Build a v1alpha', 'Vec::new(),\n                self.use_all_service_names,\n            )?),\n        ))\n    }\n\n    /// Build a v1alpha', 'build_v1 drops the decoded-form sets'),
        ('reflection', 'tonic-reflection/src/server/mod.rs', r'if self\.include_reflection_service \{\n            self =\n', 'if !self.include_reflection_service {\n            self =\n', 'build_v1alpha includes its own descriptors exactly when asked not to'),
        ('reflection', 'tonic-reflection/src/server/mod.rs', r'self\.use_all_service_names = false;', 'self.use_all_service_names = true;', 'chosen service names are ignored'),
        ('reflection', 'tonic-reflection/src/server/v1.rs', r'state: Arc::new\(state\),', 'state: Arc::new(ReflectionServiceState { service_names: state.service_names, files: HashMap::new(), symbols: state.symbols }),', 'the v1 service is built over an index without its file table'),
        ('reflection', 'tonic-reflection/src/server/mod.rs', r'match self\.symbols\.get\(symbol\) \{', 'match self.files.get(symbol) {', 'symbol lookup searches the file table'),
        ('reflection', 'tonic-reflection/src/server/mod.rs', r'Ok\(format!\("\{\}\.\{\}", prefix, name\)\)', 'Ok(format!("{}.{}", name, prefix))', 'qualified name built backwards'),
        ('reflection', 'tonic-reflection/src/server/mod.rs', r'if use_all_service_names \{\s*self\.service_names\.push', 'if !use_all_service_names {\n                self.service_names.push', 'service list filled only when explicit names were chosen'),
        ('reflection', 'tonic-reflection/src/server/mod.rs', r'self\.symbols\.insert\(oneof_name, fd\.clone\(\)\);', 'let _ = oneof_name;', 'oneofs not indexed'),
        ('reflection', 'tonic-reflection/src/server/mod.rs', r'for en in &msg\.enum_type \{', 'for en in msg.enum_type.iter().skip(1) {', 'first nested enum skipped (unsupported construct: must not alarm)'),
    ],
    'C17': [
        ('webclient', 'tonic-web/src/call.rs', r'None => \*me\.as_mut\(\)\.project\(\)\.inner_done = true,', 'None => {}', 'the end of the inner body is not recorded: the loop polls the ended body forever'),
        ('webtrailers', 'tonic-web/src/call.rs', r'map\.append\(header_key, header_value\);', 'map.insert(header_key, header_value);', 'a repeated trailer name keeps only its last value'),
        ('webtrailers', 'tonic-web/src/call.rs', r'let value = &trailer\[colon \+ 1\.\.\];', 'let value = &trailer[colon..];', 'the value keeps the colon'),
        ('webtrailers', 'tonic-web/src/call.rs', r'cursor_pos = i \+ 2;', 'cursor_pos = i + 1;', 'the next row starts at the line feed'),
        ('webservice', 'tonic-web/src/client.rs', r'r\.map\(GrpcWebCall::client_response\)', 'r.map(GrpcWebCall::client_request)', 'response body wrapped in the ENCODING adapter'),
        ('webservice', 'tonic-web/src/client.rs', r'\*req\.version_mut\(\) = Version::HTTP_11;', '*req.version_mut() = Version::HTTP_10;', 'request coerced to HTTP/1.0'),
        ('webservice', 'tonic-web/src/call.rs', r'Self::new_client\(inner, Direction::Decode, Encoding::None\)', 'Self::new_client(inner, Direction::Decode, Encoding::Base64)', 'client response decoded as base64 text'),
        ('webclient', 'tonic-web/src/call.rs', r'len \+= msg_len as usize \+ 4 \+ 1;', 'len += msg_len as usize + 4;', 'frame walk skips one byte too few'),
    ],
    'C12': [
        ('reqresp', 'tonic/src/service/interceptor.rs', r'ResponseBodyKindProj::Empty => Poll::Ready\(None\),', 'ResponseBodyKindProj::Empty => Poll::Pending,', 'the body of a veto response never ends'),
        ('reqresp', 'tonic/src/service/interceptor.rs', r'SanitizeHeaders::No\)', 'SanitizeHeaders::Yes)', 'interceptor path sanitises reserved headers'),
        ('reqresp', 'tonic/src/service/interceptor.rs', r'Err\(status\) => ResponseFuture::status\(status\),', 'Err(status) => { let _ = self.inner.call(http::Request::new(msg)); ResponseFuture::status(status) }', 'veto still calls the service'),
    ],
}
# entries whose replacement is marked 'n/a' are semantically harmless edits: they must NOT raise an alarm
# unit `stacks`: the tower stacks around a call (client: AddOrigin / UserAgent / Connection / Channel / SendRequest; server: Svc / MakeSvc)
_AO = 'tonic/src/transport/channel/service/add_origin.rs'
_UA = 'tonic/src/transport/channel/service/user_agent.rs'
_CN = 'tonic/src/transport/channel/service/connection.rs'
_SV = 'tonic/src/transport/server/mod.rs'
_CH = 'tonic/src/transport/channel/mod.rs'
_STACKS = {
    'C05': [
        ('serverglue', 'tonic/src/response.rs', r'\.insert\(crate::codec::compression::SingleMessageCompressionOverride::Disable\);', '.insert(crate::codec::compression::SingleMessageCompressionOverride::Inherit);', 'Response::disable_compression records no opt-out'),
    ],
    'C09': [
        ('stacks', _CN, r'GrpcTimeout::new\(s, endpoint\.timeout\)', 'GrpcTimeout::new(s, None)', 'the endpoint timeout never reaches the timeout layer of the channel'),
        ('stacks', _SV, r'(fn call\(&mut self, io: &ServerIo<IO>\)[\s\S]*?)let timeout = self\.timeout;', r'\1let timeout = None;', 'the server timeout never reaches the per-connection timeout layer'),
        ('stacks', 'tonic/src/transport/service/grpc_timeout.rs', r'(pub\(crate\) fn new\(inner: S, server_timeout: Option<Duration>\) -> Self \{\s*Self \{\s*inner,\s*)server_timeout,', r'\1server_timeout: None,', 'GrpcTimeout::new forgets the configured timeout'),
    ],
    'C14': [
        ('reconnect', 'tonic/src/transport/channel/endpoint.rs', r'connector\.set_connect_timeout\(Some\(connect_timeout\)\);', 'connector.set_connect_timeout(None);', 'the configured connect timeout is not applied to a user connector: a stuck connection attempt is unbounded'),
        ('stacks', _CN, r'endpoint\.uri\(\)\.clone\(\), is_lazy\)', 'endpoint.uri().clone(), true)', 'every channel is lazy: an eager connect cannot report its first failure'),
        ('stacks', _AO, r'if self\.scheme\.is_none\(\) \|\| self\.authority\.is_none\(\) \{', 'if self.scheme.is_none() && self.authority.is_none() {', 'an origin without authority reaches Uri::from_parts(..).expect and panics'),
        ('stacks', _CH, r'let inner = Service::call\(&mut self\.svc, request\);', 'let inner = Service::call(&mut self.svc, http::Request::new(request.into_body()));', 'the channel hands the connection another request than the one it was given'),
    ],
    'C03': [
        ('stacks', _AO, r'uri\.authority = self\.authority\.clone\(\);', '', 'the request keeps the authority it came with instead of the origin'),
        ('stacks', _CN, r'endpoint\.origin\.as_ref\(\)\.unwrap_or\(endpoint\.uri\(\)\)\.clone\(\)', 'endpoint.uri().clone()', 'a configured origin is ignored'),
    ],
    'C08': [
        ('reqresp', 'tonic/src/request.rs', r'(impl<T> IntoRequest<T> for Request<T> \{\s*fn into_request\(self\) -> Request<T> \{\s*)self', r'\1Request::new(self.message)', 'a Request handed to a generated client loses its metadata'),
        ('stacks', _UA, r'\.insert\(USER_AGENT, self\.user_agent\.clone\(\)\);', '.append(USER_AGENT, self.user_agent.clone());', 'the user-agent of the caller is kept next to the one of the channel'),
        ('stacks', _AO, r'let request = Request::from_parts\(head, body\);', 'let mut request = Request::from_parts(head, body); *request.headers_mut() = http::HeaderMap::new();', 'AddOrigin drops every header'),
        ('stacks', _SV, r'let response = response\.map\(\|body\| Body::new\(body\.map_err\(Into::into\)\)\);', 'let response = response.map(|body| Body::new(body.map_err(Into::into))); let (mut verif_p, verif_b) = response.into_parts(); verif_p.headers = http::HeaderMap::new(); let response = Response::from_parts(verif_p, verif_b);', 'the server future drops the response head (headers, status)'),
    ],
    'C02': [
        ('stacks', _SV, r'req = Request::from_parts\(parts, body\);', 'req = Request::new(body);', 'a traced request loses its head on the way to the service'),
        ('stacks', _CN, r'fut\.await\.map_err\(Into::into\)\.map\(\|res\| res\.map\(Body::new\)\)', 'fut.await.map_err(Into::into).map(|res| Response::new(Body::new(res.into_body())))', 'the response from the connection loses its head'),
    ],
}
for _k, _v in _STACKS.items():
    MUTATIONS.setdefault(_k, []).extend(_v)

HARMLESS = {'n/a'}


def run(prop, spec, work):
    muts = MUTATIONS.get(prop, [])
    if not muts and not spec.get('kani'):
        return 0
    sys.path.insert(0, os.path.join(os.path.dirname(os.path.abspath(__file__)), '..', 'bin'))

    def one(i, m):
        unit, file, rx, repl, what = m
        src = open(os.path.join(vxlib.REPO, file)).read()
        new, n = re.subn(rx, repl, src, count=1)
        if n == 0:
            return (i, m, 'anchor-lost', [])
        vxlib.TLS.override = {file: new}
        try:
            mod = importlib.import_module('units.' + unit)
            try:
                u = mod.build()
                u.close('} // verus!\nfn main() {}')
            except vxlib.Infra as e:
                return (i, m, 'infra:%s' % e, [])
        finally:
            vxlib.TLS.override = None
        res = vxlib.run_verus(u, os.path.join(work, 'selftest-%s-%d' % (prop, i)), rlimit=30)
        c = vxlib.classify(u, res)
        red = [ob for ob in c['failed'] if prop in u.obligations.get(ob, {}).get('props', [])]
        red += [ob for ob in c['undecided']]
        if c['infra'] and not red:
            return (i, m, 'infra:%s' % c['infra'][0][:120], [])
        return (i, m, 'red' if red else 'green', red)

    bad = 0
    with cf.ThreadPoolExecutor(max_workers=6) as ex:
        for i, m, verdict, red in ex.map(lambda im: one(*im), list(enumerate(muts))):
            harmless = m[4] in HARMLESS
            ok = (verdict == 'green') if harmless else (verdict == 'red')
            print('SELFTEST %s %s: %-40s -> %s %s' % (prop, 'harmless' if harmless else 'break   ', m[4] if not harmless else m[2][:40], verdict, ('(' + ', '.join(r.split('::')[-1] for r in red[:3]) + ')') if red else ''))
            if not ok and not verdict.startswith('anchor-lost'):
                bad += 1
    if spec.get('kani'):
        import kxlib
        for r in kxlib.selftest(spec['kani'], os.path.join(work, 'kani-selftest')):
            print('SELFTEST %s break    kani harness %-28s -> %s' % (prop, r['harness'], r['outcome']))
            if r['outcome'].startswith('NOT CAUGHT'):
                bad += 1
    if bad:
        print('SELFTEST: %d deliberate break(s) not handled as expected - the machinery is weaker than claimed (exit 2, not a violation)' % bad)
        return 2
    return 0
