// Kani harnesses for tonic/src/codec/compression.rs: EnabledCompressionEncodings slot algebra (A-tonic-cfg-01 of the Verus lane).
// Appended to the end of the real source file in a scratch copy, so the private field `inner` is visible.  Every harness ranges
// over ALL slot states ([Option<CompressionEncoding>; 3], 4^3 = 64) and all encodings: complete, not bounded (the loops run
// over the 3 slots; unwind 5 with unwinding assertions on).
#[cfg(any(kani, test))]
#[allow(dead_code, unused_imports)]
mod verif_kani_compression_cfg {
    use super::*;
/*VIN*/

    fn any_enc() -> CompressionEncoding {
        match vin::u8() % 3 {
            0 => CompressionEncoding::Gzip,
            1 => CompressionEncoding::Deflate,
            _ => CompressionEncoding::Zstd,
        }
    }
    fn any_slot() -> Option<CompressionEncoding> {
        if vin::bool() { Some(any_enc()) } else { None }
    }
    fn any_cfg() -> EnabledCompressionEncodings {
        EnabledCompressionEncodings { inner: [any_slot(), any_slot(), any_slot()] }
    }
    // reachable configurations: a packed prefix without duplicates (what Default + enable/pop can build)
    fn wf(c: &EnabledCompressionEncodings) -> bool {
        let s = &c.inner;
        (s[0].is_some() || s[1].is_none()) && (s[1].is_some() || s[2].is_none())
            && (s[0].is_none() || (s[0] != s[1] && s[0] != s[2])) && (s[1].is_none() || s[1] != s[2])
    }
    fn enabled(c: &EnabledCompressionEncodings, e: CompressionEncoding) -> bool {
        c.inner[0] == Some(e) || c.inner[1] == Some(e) || c.inner[2] == Some(e)
    }

    #[cfg_attr(kani, kani::proof)]
    #[cfg_attr(kani, kani::unwind(5))]
    pub fn cfg_is_enabled() {
        let c = any_cfg();
        let e = any_enc();
        assert!(c.is_enabled(e) == enabled(&c, e));
    }

    #[cfg_attr(kani, kani::proof)]
    #[cfg_attr(kani, kani::unwind(5))]
    pub fn cfg_is_empty() {
        let c = any_cfg();
        assert!(c.is_empty() == (c.inner[0].is_none() && c.inner[1].is_none() && c.inner[2].is_none()));
    }

    #[cfg_attr(kani, kani::proof)]
    #[cfg_attr(kani, kani::unwind(5))]
    pub fn cfg_enable() {
        let mut c = any_cfg();
        vin::assume(wf(&c));
        let old = c;
        let e = any_enc();
        c.enable(e);
        assert!(wf(&c));
        assert!(enabled(&c, e));
        let o = any_enc();
        if o != e {
            assert!(enabled(&c, o) == enabled(&old, o));
        }
        // an encoding already enabled keeps its slot: order (preference) of the others is untouched
        for i in 0..3 {
            if old.inner[i].is_some() {
                assert!(c.inner[i] == old.inner[i]);
            }
        }
    }

    #[cfg_attr(kani, kani::proof)]
    #[cfg_attr(kani, kani::unwind(5))]
    pub fn cfg_pop() {
        let mut c = any_cfg();
        vin::assume(wf(&c));
        let old = c;
        let r = c.pop();
        assert!(wf(&c));
        assert!(r.is_none() == (old.inner[0].is_none()));
        if let Some(e) = r {
            assert!(enabled(&old, e) && !enabled(&c, e));
            let o = any_enc();
            if o != e {
                assert!(enabled(&c, o) == enabled(&old, o));
            }
        } else {
            assert!(c.inner == old.inner);
        }
    }

    // into_accept_encoding_header_value is NOT decided by Kani: with symbolic slots CBMC ran out of memory (46 GB), with the
    // 64 states enumerated it did not finish in 15 min (BytesMut growth + HeaderValue::from_maybe_shared).  It is under
    // contract in the Verus lane instead (unit compression).
}
