    // Two-backend input source: symbolic under Kani, recorded bytes natively (replay of a Kani counterexample against the
    // real code with plain `cargo test`, no kani crate needed).  Values are the byte vectors `--concrete-playback=print`
    // lists, in call order, little-endian.
    #[allow(dead_code)]
    pub mod vin {
        #[cfg(kani)] pub fn u8() -> u8 { kani::any() }
        #[cfg(kani)] pub fn bool() -> bool { kani::any() }
        #[cfg(kani)] pub fn u32() -> u32 { kani::any() }
        #[cfg(kani)] pub fn usize() -> usize { kani::any() }
        #[cfg(kani)] pub fn bytes8() -> [u8; 8] { kani::any() }
        #[cfg(kani)] pub fn assume(c: bool) { kani::assume(c) }
        #[cfg(not(kani))] thread_local! { static VALS: std::cell::RefCell<std::collections::VecDeque<Vec<u8>>> = Default::default(); }
        #[cfg(not(kani))] pub fn load(v: Vec<Vec<u8>>) { VALS.with(|q| *q.borrow_mut() = v.into()); }
        #[cfg(not(kani))] fn pop(n: usize) -> Vec<u8> {
            let v = VALS.with(|q| q.borrow_mut().pop_front()).expect("recorded input exhausted");
            assert_eq!(v.len(), n, "recorded value has another width");
            v
        }
        #[cfg(not(kani))] pub fn u8() -> u8 { pop(1)[0] }
        #[cfg(not(kani))] pub fn bool() -> bool { pop(1)[0] != 0 }
        #[cfg(not(kani))] pub fn u32() -> u32 { let v = pop(4); u32::from_le_bytes([v[0], v[1], v[2], v[3]]) }
        #[cfg(not(kani))] pub fn usize() -> usize { let v = pop(8); usize::from_le_bytes([v[0], v[1], v[2], v[3], v[4], v[5], v[6], v[7]]) }
        #[cfg(not(kani))] pub fn bytes8() -> [u8; 8] { let mut a = [0u8; 8]; for x in a.iter_mut() { *x = pop(1)[0]; } a }
        #[cfg(not(kani))] pub fn assume(c: bool) { assert!(c, "VERIF-ASSUMPTION-NOT-MET by the recorded input"); }
    }
