// Kani harnesses for tonic/src/status.rs: the percent-encoding set, and conformance of the numeric constants of h2 / http
// that the Verus lane's shims spell out (A-pct-03, A-h2-01, A-http-30).
#[cfg(any(kani, test))]
#[allow(dead_code, unused_imports)]
mod verif_kani_status_tables {
    use super::*;
/*VIN*/

    // every byte a HeaderValue would reject (controls, DEL, and - because percent_encode always escapes them - non-ASCII),
    // and '%' itself (so that decoding is unambiguous), is escaped by ENCODING_SET: complete over all 256 bytes
    #[cfg_attr(kani, kani::proof)]
    #[cfg_attr(kani, kani::unwind(5))]
    pub fn encoding_set() {
        let b: u8 = vin::u8();
        let input = [b];
        let mut it = percent_encode(&input, ENCODING_SET);
        let first = it.next().unwrap();
        let escaped = first.len() == 3;
        let must = b < 0x20 || b == 0x7f || b >= 0x80 || b == b'%';
        if must { assert!(escaped); }
        // the documented set: CONTROLS + space " # % < > ` ? { }
        let listed = b < 0x20 || b == 0x7f || b >= 0x80 || b == b' ' || b == b'"' || b == b'#' || b == b'%' || b == b'<' || b == b'>' || b == b'`' || b == b'?' || b == b'{' || b == b'}';
        assert!(escaped == listed);
        if escaped {
            let h = first.as_bytes();
            assert!(h[0] == b'%');
            let hex = |d: u8| if d < 10 { b'0' + d } else { b'A' + d - 10 };
            assert!(h[1] == hex(b >> 4) && h[2] == hex(b & 15));
        } else {
            assert!(first.len() == 1 && first.as_bytes()[0] == b);
        }
    }

    // h2::Reason constants have the RFC 7540 numbers the shim spells out
    #[cfg_attr(kani, kani::proof)]
    pub fn h2_reason_constants() {
        assert!(u32::from(h2::Reason::NO_ERROR) == 0 && u32::from(h2::Reason::PROTOCOL_ERROR) == 1 && u32::from(h2::Reason::INTERNAL_ERROR) == 2);
        assert!(u32::from(h2::Reason::FLOW_CONTROL_ERROR) == 3 && u32::from(h2::Reason::SETTINGS_TIMEOUT) == 4 && u32::from(h2::Reason::STREAM_CLOSED) == 5);
        assert!(u32::from(h2::Reason::FRAME_SIZE_ERROR) == 6 && u32::from(h2::Reason::REFUSED_STREAM) == 7 && u32::from(h2::Reason::CANCEL) == 8);
        assert!(u32::from(h2::Reason::COMPRESSION_ERROR) == 9 && u32::from(h2::Reason::CONNECT_ERROR) == 10 && u32::from(h2::Reason::ENHANCE_YOUR_CALM) == 11);
        assert!(u32::from(h2::Reason::INADEQUATE_SECURITY) == 12 && u32::from(h2::Reason::HTTP_1_1_REQUIRED) == 13);
    }

    // http::StatusCode constants used by the status mapping tables
    #[cfg_attr(kani, kani::proof)]
    pub fn http_status_constants() {
        use http::StatusCode as S;
        assert!(S::OK.as_u16() == 200 && S::BAD_REQUEST.as_u16() == 400 && S::UNAUTHORIZED.as_u16() == 401 && S::FORBIDDEN.as_u16() == 403);
        assert!(S::NOT_FOUND.as_u16() == 404 && S::TOO_MANY_REQUESTS.as_u16() == 429 && S::BAD_GATEWAY.as_u16() == 502);
        assert!(S::SERVICE_UNAVAILABLE.as_u16() == 503 && S::GATEWAY_TIMEOUT.as_u16() == 504 && S::METHOD_NOT_ALLOWED.as_u16() == 405);
    }

    // Status::code_from_h2 over ALL u32 reason codes: the rows the gRPC HTTP/2 mapping fixes
    #[cfg_attr(kani, kani::proof)]
    pub fn code_from_h2_table() {
        let r: u32 = vin::u32();
        let c = Status::code_from_h2(&h2::Error::from(h2::Reason::from(r)));
        if r == 0 || r == 1 || r == 2 || r == 3 || r == 4 || r == 9 || r == 10 { assert!(c == Code::Internal); }
        if r == 7 { assert!(c == Code::Unavailable); }
        if r == 8 { assert!(c == Code::Cancelled); }
        if r == 11 { assert!(c == Code::ResourceExhausted); }
        if r == 12 { assert!(c == Code::PermissionDenied); }
        if r > 13 { assert!(c == Code::Unknown); }
    }
}
