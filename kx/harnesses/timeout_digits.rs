// Kani harness for tonic/src/transport/service/grpc_timeout.rs::is_ascii_digits (A-tonic-timeout-01 of the Verus lane):
// for EVERY string of at most 8 bytes (the only lengths try_parse_grpc_timeout passes: longer values are refused before),
// the answer is "every byte is an ASCII digit".  Complete for that domain (all 2^64 byte contents x 9 lengths).
#[cfg(any(kani, test))]
#[allow(dead_code, unused_imports)]
mod verif_kani_timeout_digits {
    use super::*;
/*VIN*/

    #[cfg_attr(kani, kani::proof)]
    #[cfg_attr(kani, kani::unwind(10))]
    pub fn timeout_digits() {
        let bytes: [u8; 8] = vin::bytes8();
        let n: usize = vin::usize();
        vin::assume(n <= 8);
        let mut all = true;
        let mut ascii = true;
        let mut i = 0;
        while i < n {
            if !(b'0' <= bytes[i] && bytes[i] <= b'9') { all = false; }
            if bytes[i] >= 0x80 { ascii = false; }
            i += 1;
        }
        // HeaderValue::to_str only hands out visible ASCII, so the argument is ASCII at the call site; this also makes
        // from_utf8_unchecked sound here
        vin::assume(ascii);
        let s = unsafe { std::str::from_utf8_unchecked(&bytes[..n]) };
        assert!(is_ascii_digits(s) == all);
    }
}
