// Kani harnesses for tonic/src/status.rs: the mapping of tonic's own transport errors found in an error's source chain
// (find_status_in_source_chain via Status::from_error): a timeout of the GrpcTimeout layer is CANCELLED, a failed connect is
// UNAVAILABLE, at any depth 0..=2 of wrapping (bounded: the chain depth).
// NOT REGISTERED: CBMC did not finish in 13 min (6 GB and growing; `timeout.to_string()` builds a String through core::fmt).
// Kept for the record of what was tried.
#[cfg(any(kani, test))]
#[allow(dead_code, unused_imports)]
mod verif_kani_status_errors {
    use super::*;
/*VIN*/
    #[derive(Debug)]
    struct Wrap(Box<dyn std::error::Error + Send + Sync>);
    impl fmt::Display for Wrap { fn fmt(&self, _f: &mut fmt::Formatter<'_>) -> fmt::Result { Ok(()) } }
    impl std::error::Error for Wrap { fn source(&self) -> Option<&(dyn std::error::Error + 'static)> { Some(self.0.as_ref()) } }

    fn wrap(e: Box<dyn std::error::Error + Send + Sync>, depth: u8) -> Box<dyn std::error::Error + Send + Sync> {
        let mut e = e;
        let mut i = 0;
        while i < depth { e = Box::new(Wrap(e)); i += 1; }
        e
    }

    #[cfg_attr(kani, kani::proof)]
    #[cfg_attr(kani, kani::unwind(4))]
    pub fn timeout_is_cancelled() {
        let depth = vin::u8();
        vin::assume(depth <= 2);
        let st = find_status_in_source_chain(wrap(Box::new(TimeoutExpired(())), depth).as_ref());
        assert!(matches!(st, Some(ref s) if s.code == Code::Cancelled));
    }
}
