"""Kani lane (DESIGN 2.2 / A.7): complete harnesses over finite domains on the REAL crate with its real dependencies.
Each run copies /repo's working tree to a scratch directory, appends the harness modules (`#[cfg(kani)] mod verif_kani_*`)
to the END of the source file that owns the private items they name (nothing else in the file changes), runs
`cargo kani` once for all requested harnesses and parses the per-harness verdicts.  The scratch copy is deleted; the build
output lives in /verif/.cache/kani-target (a cache only: it is rebuilt when absent)."""
import os
import re
import shutil
import subprocess
import time

ROOT = os.path.dirname(os.path.dirname(os.path.abspath(__file__)))
REPO = os.environ.get('VERIF_REPO', '/repo')
CACHE = os.path.join(ROOT, '.cache', 'kani-target')
HDIR = os.path.join(ROOT, 'kx', 'harnesses')
FEATURES = 'gzip,deflate,zstd'      # on top of tonic's default features (transport, router, codegen, prost)

# name -> description.  kind: 'complete' = the harness ranges over the whole stated domain with unwinding assertions on
# (a proof for that domain); 'bounded' would be a stand-in and is reported separately (none at present).
# role: 'contract' = discharges a contract the Verus lane links as a callee contract; 'conformance' = checks that a shim of
# the Verus prelude spells out the dependency's real constants.
HARNESSES = {
    'cfg_is_enabled': dict(file='compression_cfg.rs', append_to='tonic/src/codec/compression.rs', props=['C05'], kind='complete', role='contract',
                           target='EnabledCompressionEncodings::is_enabled', domain='all 4^3 slot states x 3 encodings',
                           claim='is_enabled(e) == (some slot holds e)'),
    'cfg_is_empty': dict(file='compression_cfg.rs', append_to='tonic/src/codec/compression.rs', props=['C05'], kind='complete', role='contract',
                         target='EnabledCompressionEncodings::is_empty', domain='all 4^3 slot states',
                         claim='is_empty() == (every slot is None)'),
    'cfg_enable': dict(file='compression_cfg.rs', append_to='tonic/src/codec/compression.rs', props=['C05'], kind='complete', role='contract',
                       target='EnabledCompressionEncodings::enable', domain='all reachable (packed, duplicate-free) slot states x 3 encodings',
                       claim='enable(e) keeps the configuration well formed, enables e, changes no other encoding and moves no occupied slot'),
    'cfg_pop': dict(file='compression_cfg.rs', append_to='tonic/src/codec/compression.rs', props=['C05'], kind='complete', role='contract',
                    target='EnabledCompressionEncodings::pop', domain='all reachable slot states',
                    claim='pop() removes and returns exactly the last enabled encoding (None iff empty), nothing else changes'),
    'timeout_digits': dict(file='timeout_digits.rs', append_to='tonic/src/transport/service/grpc_timeout.rs', props=['C09'], kind='complete', role='contract',
                           target='is_ascii_digits', domain='every ASCII string of at most 8 bytes (the call-site domain, enforced as a precondition in the Verus lane)',
                           claim='is_ascii_digits(s) == every byte of s is in 0..=9'),
    'encoding_set': dict(file='status_tables.rs', append_to='tonic/src/status.rs', props=['C04'], kind='complete', role='contract',
                         target='ENCODING_SET (through percent_encode)', domain='all 256 bytes',
                         claim='exactly CONTROLS, DEL, non-ASCII and space " # % < > ` ? { } are escaped, as %XX upper-case hex; in particular every byte a HeaderValue rejects and % itself'),
    'code_from_h2_table': dict(file='status_tables.rs', append_to='tonic/src/status.rs', props=['C04'], kind='complete', role='contract',
                               target='Status::code_from_h2', domain='all 2^32 reason codes, on the real h2::Error',
                               claim='the rows of the gRPC HTTP/2 error table (INTERNAL, UNAVAILABLE, CANCELLED, RESOURCE_EXHAUSTED, PERMISSION_DENIED; unknown numbers give UNKNOWN)'),
    'h2_reason_constants': dict(file='status_tables.rs', append_to='tonic/src/status.rs', props=['C04'], kind='complete', role='conformance',
                                target='h2::Reason::*', domain='the 14 constants', claim='the shim A-h2-01 spells out the real numbers', shim='A-h2-01'),
    'http_status_constants': dict(file='status_tables.rs', append_to='tonic/src/status.rs', props=['C04', 'C16'], kind='complete', role='conformance',
                                  target='http::StatusCode::*', domain='the 10 constants used', claim='the shim A-http-30 spells out the real numbers', shim='A-http-30'),
}


def harness_text(fname):
    return open(os.path.join(HDIR, fname)).read().replace('/*VIN*/', open(os.path.join(HDIR, 'vin.rs')).read())


def _scratch(work, src=None):
    os.makedirs(work, exist_ok=True)
    dst = os.path.join(work, 'kani-repo')
    if os.path.exists(dst):
        shutil.rmtree(dst)
    subprocess.run(['rsync', '-a', '--exclude', 'target', '--exclude', '.git', (src or REPO) + '/', dst + '/'], check=True)
    return dst


def run_harnesses(names, work, tier='quick', timeout=1500, src=None):
    names = [n for n in names if n in HARNESSES]
    out = dict(harnesses=[], infra=[], cmds=[], conformance=[])
    if not names:
        return out
    t0 = time.time()
    dst = _scratch(work, src)
    files = {}
    for n in names:
        h = HARNESSES[n]
        files.setdefault(h['append_to'], set()).add(h['file'])
    for target, hs in files.items():
        p = os.path.join(dst, target)
        if not os.path.exists(p):
            out['infra'].append('kani: %s is gone' % target)
            continue
        with open(p, 'a') as f:
            for hf in sorted(hs):
                f.write('\n' + harness_text(hf))
    os.makedirs(CACHE, exist_ok=True)
    env = dict(os.environ, CARGO_NET_OFFLINE='true', CARGO_TARGET_DIR=CACHE)
    cmd = ['cargo', 'kani', '-p', 'tonic', '--features', FEATURES, '-j', '8', '--output-format', 'terse']
    for n in names:
        cmd += ['--harness', 'verif_kani_%s::%s' % (HARNESSES[n]['file'][:-3], n), ]
    out['cmds'].append('(scratch copy of /repo with kx/harnesses/*.rs appended) ' + ' '.join(cmd))
    import signal
    logp = os.path.join(work, 'kani.log')
    try:
        with open(logp, 'w') as log:
            # own process group, so that a timeout also takes the cbmc children down
            pr = subprocess.Popen(cmd, cwd=dst, env=env, stdout=log, stderr=subprocess.STDOUT, text=True, start_new_session=True)
            try:
                pr.wait(timeout=timeout)
            except subprocess.TimeoutExpired:
                try:
                    os.killpg(pr.pid, signal.SIGKILL)
                except ProcessLookupError:
                    pass
                pr.wait()
                log.write('\nTIMEOUT after %d s\n' % timeout)
        txt = open(logp).read()
    finally:
        shutil.rmtree(dst, ignore_errors=True)
    wall = round(time.time() - t0, 1)
    # with -j N the log is: "Thread k: Checking harness <path>..." (start) and later "Thread k: " followed by that harness's
    # result block ("VERIFICATION:- SUCCESSFUL|FAILED", "Failed Checks: ..", "Verification Time: ..") up to the next "Thread" line
    verdict = {}
    current = {}      # thread -> harness name
    blocks = {}       # harness name -> text
    cur_block = None
    for line in txt.splitlines():
        m = re.match(r'(?:Thread (\d+): )?Checking harness ([\w:]+)\.\.\.', line)
        if m:
            hn = m.group(2).rsplit('::', 1)[-1]
            current[m.group(1) or '0'] = hn
            cur_block = hn if m.group(1) is None else None
            blocks.setdefault(hn, '')
            continue
        m = re.match(r'Thread (\d+): ?(.*)$', line)
        if m:
            cur_block = current.get(m.group(1))
            if cur_block is not None:
                blocks[cur_block] += m.group(2) + '\n'
            continue
        if re.match(r'(Manual Harness Summary|Complete - )', line):
            cur_block = None
        if cur_block is not None:
            blocks[cur_block] += line + '\n'
    for hn, sec in blocks.items():
        v = re.search(r'VERIFICATION:- (SUCCESSFUL|FAILED)', sec)
        vt = re.search(r'Verification Time: ([\d.]+)s', sec)
        failed_checks = re.findall(r'Failed Checks: ([^\n]*)', sec)
        verdict[hn] = dict(ok=bool(v and v.group(1) == 'SUCCESSFUL'), failed=bool(v and v.group(1) == 'FAILED'), s=float(vt.group(1)) if vt else None,
                           unwind=any('unwinding assertion' in c for c in failed_checks), checks=failed_checks, tail=sec[-1500:])
    compile_error = None
    if not verdict:
        compile_error = txt[-2500:]
        out['infra'].append('kani: no harness verdict (build or tool failure): ' + txt[-600:].replace('\n', ' | '))
    for n in names:
        h = HARNESSES[n]
        v = verdict.get(n)
        if v is None:
            status, tail = 'NO-VERDICT', (compile_error or '')[-800:]
        elif re.search(r'CBMC failed with status|CBMC timed out|out of memory', v['tail']):
            status, tail = 'TOOL-FAILURE', v['tail'][-600:]     # solver killed / crashed: no verdict about the code
        elif v['ok']:
            status, tail = 'SUCCESS', ''
        elif v['failed'] and v['unwind'] and all('unwinding' in c for c in v['checks']):
            status, tail = 'UNWIND-BOUND-TOO-SMALL', v['tail']      # not a verdict about the code
        elif v['failed']:
            status, tail = 'FAILURE', 'Failed Checks: ' + '; '.join(v['checks']) + '\n' + v['tail'][-900:]
        else:
            status, tail = 'NO-VERDICT', v['tail']
        rec = dict(name=n, props=h['props'], kind=h['kind'], role=h['role'], target=h['target'], claim=h['claim'], domain=h['domain'],
                   status=status, output_tail=tail, wall_s=(v or {}).get('s'), backend='kani-cbmc')
        out['harnesses'].append(rec)
        if h['role'] == 'conformance':
            out['conformance'].append(dict(shim=h.get('shim'), harness=n, status=status, what=h['claim'], method='kani-complete'))
    out['wall_s'] = wall
    return out


# deliberate breaks (thorough tier): each text mutation of the real source must turn its harness red
MUTATIONS = [
    ('cfg_is_enabled', 'tonic/src/codec/compression.rs', 'self.inner.contains(&Some(encoding))', 'self.inner[..2].contains(&Some(encoding))'),
    ('cfg_is_empty', 'tonic/src/codec/compression.rs', 'self.inner.iter().all(|e| e.is_none())', 'self.inner.iter().skip(1).all(|e| e.is_none())'),
    ('cfg_enable', 'tonic/src/codec/compression.rs', 'Some(e) if *e == encoding => return,', 'Some(e) if *e == encoding => continue,'),
    ('cfg_pop', 'tonic/src/codec/compression.rs', '            .rev()\n            .find(|entry| entry.is_some())?', '            .find(|entry| entry.is_some())?'),
    ('timeout_digits', 'tonic/src/transport/service/grpc_timeout.rs', 's.bytes().all(|b| b.is_ascii_digit())', 's.bytes().all(|b| b.is_ascii_hexdigit())'),
    ('encoding_set', 'tonic/src/status.rs', "    .add(b'%')\n", ''),
    ('code_from_h2_table', 'tonic/src/status.rs', 'Some(h2::Reason::REFUSED_STREAM) => Code::Unavailable,', 'Some(h2::Reason::REFUSED_STREAM) => Code::Internal,'),
]


def selftest(names, work):
    muts = [m for m in MUTATIONS if m[0] in names]
    if not muts:
        return []
    os.makedirs(work, exist_ok=True)
    src = os.path.join(work, 'kani-mut-src')
    subprocess.run(['rsync', '-a', '--exclude', 'target', '--exclude', '.git', REPO + '/', src + '/'], check=True)
    res, applied = [], []
    for h, f, old, new in muts:
        p = os.path.join(src, f)
        t = open(p).read() if os.path.exists(p) else ''
        if old not in t:
            res.append(dict(harness=h, outcome='skipped: mutation anchor not in the current source'))
            continue
        open(p, 'w').write(t.replace(old, new, 1))
        applied.append(h)
    r = run_harnesses(applied, os.path.join(work, 'kani-mut'), src=src)
    shutil.rmtree(src, ignore_errors=True)
    for h in r['harnesses']:
        res.append(dict(harness=h['name'], outcome='caught' if h['status'] == 'FAILURE' else 'NOT CAUGHT (%s)' % h['status']))
    return res


def counterexample(name, work, timeout=900):
    """Kani gave FAILURE for harness `name`: ask it for concrete values (--concrete-playback=print), then replay them NATIVELY:
    the same harness body (cfg(test), recorded bytes instead of kani::any) appended to a scratch copy of /repo's working
    tree and run with plain `cargo test`.  A failing test is the counterexample reproduced on the real code."""
    h = HARNESSES[name]
    dst = _scratch(work)
    res = dict(harness=name, found=False)
    try:
        with open(os.path.join(dst, h['append_to']), 'a') as f:
            f.write('\n' + harness_text(h['file']))
        env = dict(os.environ, CARGO_NET_OFFLINE='true', CARGO_TARGET_DIR=CACHE)
        cmd = ['cargo', 'kani', '-p', 'tonic', '--features', FEATURES, '--output-format', 'terse', '-Z', 'concrete-playback', '--concrete-playback=print',
               '--harness', 'verif_kani_%s::%s' % (h['file'][:-3], name)]
        try:
            p = subprocess.run(cmd, cwd=dst, env=env, capture_output=True, text=True, timeout=timeout, start_new_session=True)
            txt = p.stdout + p.stderr
        except subprocess.TimeoutExpired:
            res['why'] = 'concrete playback timed out'
            return res
        m = re.search(r'let concrete_vals: Vec<Vec<u8>> = vec!\[(.*?)\n    \];', txt, re.S)
        if not m:
            res['why'] = 'Kani printed no concrete values'
            return res
        vals = [[int(x) for x in re.findall(r'\d+', v)] for v in re.findall(r'vec!\[([^\]]*)\]', m.group(1))]
        res['concrete_vals'] = vals
        res['failed_checks'] = re.findall(r'Failed Checks: ([^\n]*)', txt)[:4]
        res.update(native_replay(name, vals, work, dst))
        return res
    finally:
        shutil.rmtree(dst, ignore_errors=True)


def native_replay(name, vals, work, dst=None):
    h = HARNESSES[name]
    own = dst is None
    if own:
        dst = _scratch(work)
        with open(os.path.join(dst, h['append_to']), 'a') as f:
            f.write('\n' + harness_text(h['file']))
    try:
        mod = 'verif_kani_%s' % h['file'][:-3]
        test = ('\n#[cfg(test)]\nmod verif_kani_replay {\n    #[test]\n    fn verif_kani_replay_%s() {\n        super::%s::vin::load(vec![%s]);\n        super::%s::%s();\n    }\n}\n'
                % (name, mod, ', '.join('vec![%s]' % ', '.join(map(str, v)) for v in vals), mod, name))
        with open(os.path.join(dst, h['append_to']), 'a') as f:
            f.write(test)
        env = dict(os.environ, CARGO_NET_OFFLINE='true', CARGO_TARGET_DIR=os.path.join(ROOT, '.cache', 'witness-target'))
        cmd = ['cargo', 'test', '--offline', '-p', 'tonic', '--lib', '--features', FEATURES, 'verif_kani_replay_' + name]
        p = subprocess.run(cmd, cwd=dst, env=env, capture_output=True, text=True, timeout=1200)
        txt = p.stdout + p.stderr
        failed = re.findall(r'^test (\S+) \.\.\. FAILED', txt, re.M)
        ran = re.findall(r'^test (\S+) \.\.\. (?:ok|FAILED)', txt, re.M)
        panics = re.findall(r"panicked at [^\n]*\n[^\n]*", txt)
        assumption = any('VERIF-ASSUMPTION-NOT-MET' in d for d in panics)
        return dict(found=bool(failed) and not assumption, native_cmd=' '.join(cmd), native_test=test, native_ran=len(ran), native_failed=failed,
                    native_detail=panics[:3], build_error=(not ran and txt[-1200:]) or None)
    finally:
        if own:
            shutil.rmtree(dst, ignore_errors=True)


if __name__ == '__main__':
    import sys, tempfile, json
    w = tempfile.mkdtemp(prefix='verif-kani-')
    try:
        r = run_harnesses([a for a in sys.argv[1:] if not a.startswith('-')] or list(HARNESSES), w)
        for h in r['harnesses']:
            print(h['name'], h['status'], h['wall_s'])
            if h['status'] != 'SUCCESS':
                print(h['output_tail'])
                if h['status'] == 'FAILURE' and '--cex' in sys.argv:
                    print(json.dumps(counterexample(h['name'], w), indent=1))
        print(r['infra'], r.get('wall_s'))
    finally:
        shutil.rmtree(w, ignore_errors=True)
